"""C17: entity declarations expand to a complete, mutually consistent API.
Spec: spec/J5Entity.tla (+ J5EntityMC.tla pools, J5EntityTrace.tla); harness: harness/entity_*.go."""
import json
import os
import random

import vcheck
from vcheck import log

DRIVER = "entity-expand"
WORKERS = 4
KNOWN_FILE = os.path.join(vcheck.VERIF, "known_findings.entity.jsonl")
LAWS = ("LawNamed", "LawAnnotation", "LawStateEvent", "LawOneof", "LawPrimary", "LawStatus", "LawClient")


def load_own_known(chk):
    """known findings proposed by this work package (merged into known_findings.jsonl by the main session)"""
    if not os.path.exists(KNOWN_FILE):
        return
    have = {k["signature"] for k in chk.known}
    for line in open(KNOWN_FILE):
        line = line.strip()
        if not line or line.startswith("#") or line.startswith("fixed:"):
            continue
        k = json.loads(line)
        if k.get("property") == chk.prop and k["signature"] not in have:
            chk.known.append(k)


def check_model(chk, r):
    if r.violated:
        chk.machinery_errors.append("model-level property %s violated in spec/J5Entity.tla (a lead, not a code verdict):\n%s"
                                    % (r.violated, r.output[-2500:]))


def split_traces(results):
    """one list of events per compiled entity"""
    traces = []
    for e in results:
        ev = (e.get("out") or {}).get("events") or []
        if ev:
            traces.append(ev)
    return traces


def validate_trace(chk, traces, name):
    """Direction T: the recorded declarations and real expansions against J5EntityTrace; the statement of C17 is
    evaluated by TLC on the logged real expansion."""
    events = [x for t in traces for x in t]
    path = os.path.join(chk.dir, name + ".trace.ndjson")
    vcheck.write_ndjson(path, events)
    r = chk.tlc("J5EntityTraceMC.tla", "J5Entity_trace.cfg", name, workers=1, env={"VERIF_TRACE": path}, timeout=1500)
    done = [o for (t, o) in r.lines if t == "TRACEDONE"]
    if r.violated in LAWS:
        return ("law", r)
    if r.violated:
        return ("model", r)
    if not done or done[0]["events"] != len(events) or done[0]["entities"] != len(traces):
        return ("incomplete", r)
    chk.traces_validated += len(traces)
    chk.trace_events += len(events)
    if done[0]["drift"]:
        chk.drift["C17|trace-nonconforming"] = chk.drift.get("C17|trace-nonconforming", 0) + done[0]["drift"]
    return ("ok", r)


# The repository's own entity fixture (j5stest/proto/j5st/v1/foo.j5s), re-homed to package foo.v1, with its
# declaration written by hand in the specification's vocabulary: validated in direction T only.
FIXTURE_AST = {
    "name": {"words": ["foo"], "casing": "upper"},
    "keys": [
        {"words": ["foo", "id"], "type": "key:id62", "marker": "primary", "tenant": False, "shard": False, "req": False},
        {"words": ["account", "id"], "type": "key:id62", "marker": "notprimary", "tenant": True, "shard": False, "req": False},
    ],
    "data": [{"words": ["name"], "type": "string", "req": False}],
    "status": ["ACTIVE", "INACTIVE"],
    "events": [{"words": ["create"], "fields": [{"words": ["name"], "type": "string"}]}, {"words": ["archive"], "fields": []}],
    "commands": [],
    "summaries": [{"words": [], "fields": [{"words": ["name"], "type": "string"}]}],
    "query": {"present": False, "eventsInGet": False, "filter": "none"},
    "layout": "grouped",
}


def fixture_case():
    path = os.path.join(vcheck.REPO, "j5stest/proto/j5st/v1/foo.j5s")
    try:
        text = open(path, encoding="utf-8").read()
    except OSError:
        return None
    if "package j5st.v1" not in text:
        return None
    text = text.replace("package j5st.v1", "package foo.v1", 1)

    def lc(ws):
        return ws[0] + "".join(w.capitalize() for w in ws[1:]) if ws else ""

    a = FIXTURE_AST
    src = {
        "name": "Foo",
        "keys": [dict(name=lc(k["words"]), type=k["type"], marker=k["marker"], tenant=k["tenant"], shard=k["shard"], req=k["req"]) for k in a["keys"]],
        "data": [dict(name=lc(d["words"]), type=d["type"], req=d["req"]) for d in a["data"]],
        "status": a["status"],
        "events": [dict(name=lc(e["words"]).capitalize(), fields=[dict(name=lc(f["words"]), type=f["type"]) for f in e["fields"]]) for e in a["events"]],
        "commands": [],
        "summaries": [dict(name=lc(s["words"]), fields=[dict(name=lc(f["words"]), type=f["type"]) for f in s["fields"]]) for s in a["summaries"]],
        "query": {"present": False, "eventsInGet": False, "filter": []},
        "layout": "grouped",
    }
    return {"focus": "fixture", "ast": a, "src": src, "text": text, "fixture": True}


def run(chk):
    quick = chk.tier == "quick"
    seed = chk.seed
    rng = random.Random(seed)
    load_own_known(chk)
    chk.rule = ("cases are the finished declarations (phase = done) of spec/J5Entity.tla: one dimension of the declaration varied "
                "exhaustively over its pool per focus (entity name words x casing; one key over type x marker x tenant x shard x required; "
                "sequences of up to 3 keys over primary/foreign/plain x shard; up to 2 data fields over 21 types; ordered selections of up to 3 "
                "statuses; up to 3 events x 4 field lists; event field types; up to 2 command services x name x base path x method lists; "
                "up to 2 summaries; query settings x source layout; a mixed focus combining small pools) plus random declarations over the "
                "full pools by TLC simulation; distinct by the printed declaration; non-trivial = at least one clause of the statement is "
                "exercised beyond the minimal entity (a primary key, two statuses, an event option, a command, a summary)")
    chk.assumptions += [
        "member names of keys / data / event fields are positional (keyA, datA, fldA): their spelling is C02's subject",
        "the entity lives alone in package foo.v1; foreign keys point at a package that is not compiled",
        "type atoms are mapped to concrete j5s by the harness printer (inline object / enum / oneof bodies are fixed)",
        "Status and EventType cannot carry the psm annotation (no such EntityPart exists; README shows none): 'all carrying the same "
        "entity annotation' is decided on Keys, Data, State, Event, the query and command services and the topics",
        "declarations the compiler rejects for a reason other than an inconsistency of the expansion itself are skipped and counted (C07)",
    ]
    cases = []
    if quick:
        r = chk.tlc("J5EntityMC.tla", "J5Entity_quick.cfg", "focus", workers=WORKERS, timeout=600)
    else:
        r = chk.tlc("J5EntityMC.tla", "J5Entity_thorough.cfg", "focus", workers=WORKERS, timeout=1800)
    check_model(chk, r)
    cases += r.cases
    n_exh = len(r.cases)
    # random deep declarations over the full pools
    # (in simulation mode TLC evaluates Emit on every successor of the last step, so each behaviour yields the
    # declaration under all 14 query x layout settings: two of them are kept per declaration)
    sims = [(300, seed)] if quick else [(2500, seed), (2500, seed + 1), (2500, seed + 2), (2500, seed + 3)]
    n_sim_emitted = 0
    for i, (n, s) in enumerate(sims):
        r = chk.tlc("J5EntityMC.tla", "J5Entity_sim.cfg", "sim%d" % i, workers=1 if quick else WORKERS,
                    simulate=n if quick else n // WORKERS, depth=40, seed=s, timeout=1800)
        check_model(chk, r)
        n_sim_emitted += len(r.cases)
        groups = {}
        for c in r.cases:
            k = json.dumps({a: b for a, b in c["src"].items() if a not in ("query", "layout")}, sort_keys=True)
            groups.setdefault(k, []).append(c)
        for k in sorted(groups):
            g = groups[k]
            rng.shuffle(g)
            cases += g[:2]
    chk.extra_cov["cases_simulation_emitted"] = n_sim_emitted
    # a model-level finding (a lead, V1): two summary names collide with the generated publish topic / its message.
    # NamesUnique is violated on the model; the clashing declarations are replayed to record what the compiler does.
    r = chk.tlc("J5EntityMC.tla", "J5Entity_cx_NamesUnique.cfg", "cx_NamesUnique", workers=1, timeout=300)
    chk.extra_cov["model_NamesUnique_with_summary_named_publish_or_event"] = (
        "violated (counterexample found by TLC)" if r.violated == "NamesUnique" else "holds on the model")
    r = chk.tlc("J5EntityMC.tla", "J5Entity_clash.cfg", "clash", workers=1, timeout=300)
    clash = [c for c in r.cases if c["src"]["summaries"]]
    cres = chk.replay(DRIVER, clash, "clash", workers=1, timeout="30s")
    chk.extra_cov["clash_declarations_real_outcome"] = sorted(
        "summary %s -> %s" % (c["src"]["summaries"][0]["name"], (e.get("out") or {}).get("skip") or ("compiled" if e.get("out") else "crash"))
        for c, e in zip(clash, cres))
    chk.exhaustive = False
    chk.extra_cov["cases_exhaustive_focus"] = n_exh
    chk.extra_cov["cases_simulated"] = len(cases) - n_exh
    # de-duplicate (simulation repeats small declarations)
    seen, uniq = set(), []
    for c in cases:
        k = json.dumps(c["src"], sort_keys=True)
        if k not in seen:
            seen.add(k)
            uniq.append(c)
    cases = uniq
    by_focus = {}
    for c in cases:
        by_focus[c["focus"]] = by_focus.get(c["focus"], 0) + 1
    chk.extra_cov["cases_by_focus"] = by_focus

    # --- direction G
    res = chk.replay(DRIVER, cases, "model", workers=WORKERS, timeout="30s")
    chk.absorb(DRIVER, cases, res)
    skipped = {}
    for e in res:
        s = (e.get("out") or {}).get("skip")
        if s:
            skipped[s] = skipped.get(s, 0) + 1
    chk.extra_cov["rejected_by_compiler_skipped"] = skipped
    if skipped:
        chk.notes.append("declarations rejected by the compiler for reasons outside C17 (C07): %s" % skipped)
    compiled = sum(1 for e in res if (e.get("out") or {}).get("events"))
    chk.extra_cov["entities_compiled_and_projected"] = compiled
    if sum(skipped.values()) > 0.2 * len(cases):
        chk.machinery_errors.append("%d of %d generated declarations were rejected by the compiler (%s): the generator does not produce the "
                                    "documented language, or the compiler is broken beyond C17 (see C07)" % (sum(skipped.values()), len(cases), skipped))

    # --- direction T
    traces = split_traces(res)
    fx = fixture_case()
    if fx is not None:
        fres = chk.replay(DRIVER, [fx], "fixture", workers=1, timeout="30s")
        ft = split_traces(fres)
        if ft:
            traces = ft + traces
            chk.extra_cov["repository_fixture_traces"] = len(ft)
        else:
            chk.notes.append("repository fixture foo.j5s produced no trace: %s" % json.dumps(fres[0])[:300])
    lim = 700 if quick else 4000
    if len(traces) > lim:
        head, rest = traces[:1], traces[1:]
        rng.shuffle(rest)
        traces = head + rest[:lim - 1]
    verdict, tr = validate_trace(chk, traces, "trace")
    if verdict == "law":
        # TLC found the statement broken on a recorded real expansion; the per-case comparison evaluates the same
        # clauses, so a violation with a replay file must exist already; otherwise the two oracles disagree
        if not chk.violations:
            chk.machinery_errors.append("J5EntityTrace reports %s violated on a recorded expansion but the per-case comparison "
                                        "reported no violation:\n%s" % (tr.violated, tr.output[-2000:]))
        else:
            chk.notes.append("trace validation: %s violated on a recorded real expansion (coincides with the reported violations)" % tr.violated)
    elif verdict != "ok":
        chk.machinery_errors.append("trace validation %s: %s\n%s" % (verdict, tr.violated or tr.error, tr.output[-2000:]))


def replay(prop, path):
    rec = json.load(open(path))
    chk = vcheck.Check(prop, "replay")
    res = chk.replay(rec["driver"], [rec["case"]], "replay", workers=1, timeout="60s")
    chk.known = []
    chk.absorb(rec["driver"], [rec["case"]], res)
    out = res[0].get("out") or {}
    print(out.get("note", ""))
    print(json.dumps({k: out.get(k) for k in ("viol", "drift", "skip")}, indent=1)[:6000])
    return chk.finish()


def selftest(prop):
    """V4: the binding must reject corrupted recordings, and the comparison must flag a broken expansion."""
    chk = vcheck.Check(prop, "selftest")
    load_own_known(chk)
    r = chk.tlc("J5EntityMC.tla", "J5Entity_quick.cfg", "focus", workers=WORKERS, timeout=600)
    cases = [c for c in r.cases if c["focus"] == "mix" and c["ast"]["events"] and c["ast"]["summaries"] and c["ast"]["commands"]
             and len(c["ast"]["keys"]) == 2][:12]
    res = chk.replay(DRIVER, cases, "st", workers=WORKERS)
    traces = split_traces(res)
    ok = True
    if len(traces) != len(cases):
        log("SELFTEST-FAIL C17: %d traces for %d cases" % (len(traces), len(cases)))
        ok = False
    v, _ = validate_trace(chk, traces, "st_ok")
    if v != "ok":
        log("SELFTEST-FAIL C17: pristine trace not accepted (%s)" % v)
        ok = False

    # TLC's workers emit cases in no fixed order: pick a trace whose expansion has a composite primary key
    def composite(tr):
        for ev in tr:
            if ev["op"] == "expand":
                x = ev["real"]
                try:
                    return len(x["client"]["primaryKey"]) >= 2 and len(x["query"]["methods"][0]["params"]) >= 2
                except (KeyError, IndexError, TypeError):
                    return False
        return False
    # ... and which conforms to the model on its own (some declarations differ from the model off-statement: drift)
    def drift_of(trs, name):
        b = chk.drift.get("C17|trace-nonconforming", 0)
        v, _ = validate_trace(chk, trs, name)
        return v, chk.drift.get("C17|trace-nonconforming", 0) - b
    pick = None
    for i, tr in enumerate(traces):
        if composite(tr) and drift_of([tr], "st_pick%d" % i) == ("ok", 0):
            pick = i
            break
    if pick is None:
        log("SELFTEST-FAIL C17: no recorded expansion with a composite primary key that conforms to the model")
        return 2

    def corrupt(fn):
        bad = json.loads(json.dumps(traces))
        for ev in bad[pick]:
            if ev["op"] == "expand":
                fn(ev["real"])
        return bad

    def expect_law(name, fn, law):
        nonlocal ok
        v, tr = validate_trace(chk, corrupt(fn), name)
        if v != "law" or (law and tr.violated != law):
            log("SELFTEST-FAIL C17: corruption %s not rejected by %s (%s %s)" % (name, law, v, tr.violated))
            ok = False

    # 1. corrupt the recorded real expansion: each clause of the statement must be rejected by its law
    expect_law("st_psm", lambda x: x["psm"][1].__setitem__("entity", "other"), "LawAnnotation")
    expect_law("st_flat", lambda x: x["event"][1].__setitem__("flatten", False), "LawStateEvent")
    expect_law("st_target", lambda x: x["eventType"]["options"][0].__setitem__("target", "foo.v1.FooEventType.Other"), "LawOneof")
    expect_law("st_status", lambda x: x["status"][1].__setitem__("number", 0), "LawStatus")
    expect_law("st_order", lambda x: x["query"]["methods"][0].__setitem__("params", list(reversed(x["query"]["methods"][0]["params"]))), "LawPrimary")
    expect_law("st_upsert", lambda x: x["upserts"].pop(), "LawNamed")
    expect_law("st_suffix", lambda x: x["schemas"].__setitem__("keys", x["schemas"]["keys"][:-1]), "LawNamed")
    expect_law("st_client", lambda x: x["client"]["primaryKey"].reverse(), "LawClient")
    # 2. a difference outside the statement is counted as non-conformance, not rejected
    v, d = drift_of([corrupt(lambda x: x["publish"].__setitem__("topicName", "zzz"))[pick]], "st_drift")
    if v != "ok" or d != 1:
        log("SELFTEST-FAIL C17: off-statement difference not counted as non-conformance (%s, %d)" % (v, d))
        ok = False
    # 3. dropping a recorded clause must not be accepted as the same declaration
    bad = json.loads(json.dumps(traces))
    bad[2] = [ev for ev in bad[2] if ev["op"] != "status"]
    v, _ = validate_trace(chk, bad, "st_drop")
    if v == "ok":
        log("SELFTEST-FAIL C17: trace with a dropped clause accepted")
        ok = False
    # 4. the per-case comparison flags a swapped model prediction (driver vs a wrong expectation)
    wrong = json.loads(json.dumps(cases[:4]))
    wrong[0]["exp"]["schemas"]["keys"] += "X"
    wrong[1]["exp"]["status"][1]["number"] = 0
    wrong[2]["exp"]["event"][1]["flatten"] = False  # model weaker than real: must NOT be a violation
    wrong[3]["exp"]["query"]["methods"][0]["params"].reverse()
    wrong[3]["exp"]["keys"].reverse()
    res = chk.replay(DRIVER, wrong, "st_wrong", workers=WORKERS)
    sigs = [sorted(v["sig"] for v in (e.get("out") or {}).get("viol") or []) for e in res]
    if "C17|schema|keys|name" not in sigs[0] or "C17|status|numbering" not in sigs[1] or sigs[2] or not sigs[3]:
        log("SELFTEST-FAIL C17: swapped predictions gave %s" % sigs)
        ok = False
    log("SELFTEST %s C17" % ("ok" if ok else "FAILED"))
    return 0 if ok else 2
