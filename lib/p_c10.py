"""C10: concurrent use of a shared codec / schema cache. Spec: spec/SchemaCache.tla (+ SchemaCacheTrace.tla)."""
import json
import os
import random
import re

import vcheck
from vcheck import log

GRAPHS = {
    "shared": {"A": {"pkg": "sa.v1", "children": ["B", "C"]}, "B": {"pkg": "sa.v1", "children": ["C"]},
               "C": {"pkg": "sa.v1", "children": []}},
    "rec": {"A": {"pkg": "ra.v1", "children": ["A", "B"]}, "B": {"pkg": "ra.v1", "children": ["A"]}},
    "xp": {"A": {"pkg": "xa.v1", "children": ["D"]}, "D": {"pkg": "xb.v1", "children": []},
           "C": {"pkg": "xc.v1", "children": []}},
    # L is flattened into itself: its schema builds and is then rejected and rolled back; H holds an L; G is unrelated
    "inv": {"L": {"pkg": "ia.v1", "children": ["L"], "selfflat": True}, "H": {"pkg": "ia.v1", "children": ["L"]},
            "G": {"pkg": "ia.v1", "children": []}},
}
# larger graph for stress only (not a model constant)
BIG = {
    "A": {"pkg": "ba.v1", "children": ["B", "C", "D", "A"]}, "B": {"pkg": "ba.v1", "children": ["C", "E", "A"]},
    "C": {"pkg": "ba.v1", "children": ["F"]}, "D": {"pkg": "bb.v1", "children": ["E", "F", "G"]},
    "E": {"pkg": "bb.v1", "children": ["D"]}, "F": {"pkg": "bc.v1", "children": []},
    "G": {"pkg": "bc.v1", "children": ["A", "H"]}, "H": {"pkg": "bd.v1", "children": ["H"]},
}


def race_sig(case, env, default):
    txt = env.get("crash") or ""
    if "DATA RACE" in txt or "Previous write at" in txt or "Previous read at" in txt:
        fn = None
        for line in txt.split("\n"):
            line = line.strip()
            if line.startswith("github.com/pentops/j5/") and "verifh" not in line:
                fn = re.sub(r"\(\)$", "", line).replace("github.com/pentops/j5/", "")
                break
        return "C10|race|%s" % (fn or "?")
    if "concurrent map" in txt:
        return "C10|fatal|concurrent-map"
    return default


def run(chk):
    quick = chk.tier == "quick"
    seed = chk.seed
    rng = random.Random(seed)
    chk.rule = ("(i) every interleaving of the cache's critical sections is explored by TLC on spec/SchemaCache.tla with the mutex "
                "(2 goroutines, 3 type graphs; 3 goroutines in thorough); (ii) every distinct misbehaving state of the unguarded "
                "variant yields a shortest schedule that is forced step by step on the real code through the verifAt gates and each "
                "call's result is compared with the same call on a private codec; (iii) free-running goroutines on one shared codec "
                "under the Go race detector, results compared with sequential results; (iv) hook traces of free runs validated by TLC "
                "against the guarded specification. non-trivial = a forced schedule or a stress run (all are); distinct by schedule / stress parameters")
    chk.assumptions += [
        "data races themselves are detected by the Go race detector and by crashes; TLC supplies schedules and validates traces",
        "a forced schedule that cannot be realised because a goroutine blocks (lock held) counts as evidence for the property",
        "type graphs are dynamic proto3 messages built from the model's Types/ChildSeq/Pkg constants",
    ]
    # ---- (i) model checking with the mutex
    for g in GRAPHS:
        r = chk.tlc("SchemaCacheMC.tla", "SchemaCache_%s2_check.cfg" % g, "check_%s2" % g, timeout=600)
        if r.violated:
            chk.machinery_errors.append("guarded model violates %s on graph %s:\n%s" % (r.violated, g, r.output[-2000:]))
        if not quick:
            r = chk.tlc("SchemaCacheMC.tla", "SchemaCache_%s3_check.cfg" % g, "check_%s3" % g, timeout=1800)
            if r.violated:
                chk.machinery_errors.append("guarded model (3 procs) violates %s on graph %s:\n%s" % (r.violated, g, r.output[-2000:]))
    # the design without the lock is wrong, and TLC must be able to tell (guards against a vacuous model)
    r = chk.tlc("SchemaCacheMC.tla", "SchemaCache_shared2_unguarded.cfg", "unguarded", timeout=600)
    if r.violated != "SameAsAlone":
        chk.machinery_errors.append("unguarded model does not violate SameAsAlone: the model is vacuous")
    chk.extra_cov["unguarded_model_violates"] = r.violated
    # validating a build after giving up the lock (Guard = "early") is wrong as well
    r = chk.tlc("SchemaCacheMC.tla", "SchemaCache_inv2_early.cfg", "early", timeout=600)
    if r.violated != "SameAsAlone":
        chk.machinery_errors.append("early-unlock model does not violate SameAsAlone: the model is vacuous")
    chk.extra_cov["early_unlock_model_violates"] = r.violated
    # ---- (ii) attack schedules
    attacks = []
    for g in GRAPHS:
        r = chk.tlc("SchemaCacheMC.tla", "SchemaCache_%s2_attack.cfg" % g, "attack_%s2" % g, timeout=600)
        attacks += r.cases
    if not quick:
        for g in GRAPHS:
            r = chk.tlc("SchemaCacheMC.tla", "SchemaCache_%s3_attack.cfg" % g, "attack_%s3" % g, timeout=3000)
            cs = r.cases
            rng.shuffle(cs)
            attacks += cs[:4000]
    res = chk.replay("c10attack", attacks, "attack", timeout="60s")
    chk.absorb("c10attack", attacks, res, crash_sig=race_sig)
    feas = sum(1 for e in res if (e.get("out") or {}).get("obs", {}).get("feasible"))
    forced = sum((e.get("out") or {}).get("obs", {}).get("forced", 0) for e in res)
    chk.extra_cov["attack_schedules"] = len(attacks)
    chk.extra_cov["attack_schedules_fully_realised"] = feas
    chk.extra_cov["attack_steps_forced"] = forced
    # ---- (iii) stress under the race detector
    stress = []
    nseeds = 2 if quick else 12
    for gname, graph in list(GRAPHS.items()) + [("big", BIG)]:
        for warm in (False, True):
            for glob in (False, True):
                for k in range(nseeds):
                    stress.append({"graph": graph, "goroutines": 16, "per_g": 20 if quick else 120, "seed": seed * 1000 + k,
                                   "warm": warm, "global": glob, "log": False})
    # many message types of one package that share one enum (each refers to it, none owns it), cold: while some goroutines
    # are inside calls on types they have used before, others use further types for the first time
    wide = {"T%02d" % i: {"pkg": "w.v1", "children": []} for i in range(40)}
    for k in range(3 if quick else 12):
        stress.append({"graph": wide, "goroutines": 8, "per_g": 60, "seed": seed * 700 + k, "warm": False, "global": False, "enums": True})
    res = chk.replay("c10stress", stress, "stress", workers=4, timeout="120s", race=True, env={"GORACE": "halt_on_error=1"})
    chk.absorb("c10stress", stress, res, crash_sig=race_sig)
    chk.extra_cov["stress_runs"] = len(stress)
    # rich stress: a populated test.schema.v1.FullSchema (enums decoded by name, oneofs, maps, flattened objects) so that any lazily
    # initialised state hanging off shared schema objects is exercised from several goroutines at once
    rich = []
    for warm in (False, True):
        for glob in (False, True):
            for k in range(3 if quick else 12):
                rich.append({"graph": {}, "goroutines": 16, "per_g": 150 if quick else 600, "seed": seed * 500 + k, "warm": warm, "global": glob})
    # many more goroutines than processors, all decoding: whatever a call keeps on the shared codec while it runs (a counter,
    # a scratch buffer, a "busy" mark) is then held by dozens of calls at once, not by at most GOMAXPROCS of them
    for warm in (False, True):
        for k in range(2 if quick else 8):
            rich.append({"graph": {}, "goroutines": 64 if k % 2 == 0 else 128, "per_g": 40 if quick else 150, "seed": seed * 900 + k,
                         "warm": warm, "global": False, "mix": "dec"})
    res = chk.replay("c10rich", rich, "rich", workers=4, timeout="180s", race=True, env={"GORACE": "halt_on_error=1"})
    chk.absorb("c10rich", rich, res, crash_sig=race_sig)
    chk.extra_cov["rich_stress_runs"] = len(rich)
    # ---- (iv) trace validation of free runs
    for gname, graph in GRAPHS.items():
        runs = [{"graph": graph, "goroutines": 4, "per_g": 6, "seed": seed * 77 + k, "warm": False, "global": False, "log": True}
                for k in range(6 if quick else 40)]
        res = chk.replay("c10stress", runs, "tracegen_" + gname, workers=8, timeout="60s")
        chk.absorb("c10stress", runs, res, crash_sig=race_sig)
        events = []
        n = 0
        for e in res:
            evs = (e.get("out") or {}).get("events")
            if not evs:
                continue
            n += 1
            events.append({"op": "reset", "g": "", "point": "", "key": ""})
            for x in evs:
                events.append({"op": "at", "g": x["g"], "point": x["point"], "key": x["key"]})
        if not events:
            continue
        path = os.path.join(chk.dir, "trace_%s.ndjson" % gname)
        vcheck.write_ndjson(path, events)
        r = chk.tlc("SchemaCacheTraceMC.tla", "SchemaCache_%s_trace.cfg" % gname, "trace_" + gname, workers=1,
                    env={"VERIF_TRACE": path}, timeout=900)
        done = [o for (t, o) in r.lines if t == "TRACEDONE"]
        if r.violated:
            chk.drift["C10|trace-invariant-%s" % r.violated] = chk.drift.get("C10|trace-invariant-%s" % r.violated, 0) + 1
            chk.notes.append("recorded trace (%s) violates %s of the guarded specification" % (gname, r.violated))
        elif done and done[0]["events"] == len(events):
            chk.traces_validated += n
            chk.trace_events += len(events)
        else:
            chk.drift["C10|trace-rejected"] = chk.drift.get("C10|trace-rejected", 0) + 1
            chk.notes.append("recorded trace (%s) is not a behaviour of the guarded specification" % gname)


def replay(prop, path):
    import check
    return check.generic_replay(prop, path)


def selftest(prop):
    """V4: corrupt a recorded trace and require rejection; a pristine one must be accepted."""
    chk = vcheck.Check(prop, "selftest")
    graph = GRAPHS["shared"]
    runs = [{"graph": graph, "goroutines": 4, "per_g": 4, "seed": 5 + k, "warm": False, "global": False, "log": True} for k in range(3)]
    res = chk.replay("c10stress", runs, "st", workers=2, timeout="60s")
    events = []
    for e in res:
        events.append({"op": "reset", "g": "", "point": "", "key": ""})
        for x in (e.get("out") or {}).get("events") or []:
            events.append({"op": "at", "g": x["g"], "point": x["point"], "key": x["key"]})

    def accepted(evs, name):
        path = os.path.join(chk.dir, name + ".ndjson")
        vcheck.write_ndjson(path, evs)
        r = chk.tlc("SchemaCacheTraceMC.tla", "SchemaCache_shared_trace.cfg", name, workers=1, env={"VERIF_TRACE": path}, timeout=600)
        done = [o for (t, o) in r.lines if t == "TRACEDONE"]
        return (not r.violated) and bool(done) and done[0]["events"] == len(evs)
    ok = True
    if len(events) < 20:
        log("SELFTEST-NOTE C10: no hook events recorded (tree without hooks?)")
        ok = False
    elif not accepted(events, "st_ok"):
        # on a tree without the lock the pristine trace is legitimately rejected; report, do not fail setup
        log("SELFTEST-NOTE C10: pristine trace rejected (expected only on a tree where the cache is unguarded)")
    else:
        # drop one event (a removed hook)
        idx = next(i for i, e in enumerate(events) if e["point"] == "insert")
        if accepted(events[:idx] + events[idx + 1:], "st_drop"):
            log("SELFTEST-FAIL C10: trace with a dropped 'insert' event accepted")
            ok = False
        # swap two goroutines' events inside a critical section (mutual exclusion broken)
        bad = json.loads(json.dumps(events))
        for i in range(len(bad) - 1):
            if bad[i]["op"] == "at" and bad[i + 1]["op"] == "at" and bad[i]["g"] != bad[i + 1]["g"] \
                    and bad[i]["point"] == "return" and bad[i + 1]["point"] == "pkgLookup":
                bad[i], bad[i + 1] = bad[i + 1], bad[i]
                break
        if accepted(bad, "st_swap"):
            log("SELFTEST-FAIL C10: trace with an acquire before the previous holder's return accepted")
            ok = False
    log("SELFTEST %s C10" % ("ok" if ok else "FAILED"))
    return 0 if ok else 2
