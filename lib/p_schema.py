"""C02 / C13 / C14: the j5s compiler's protobuf contract, append stability and determinism.

Specs: spec/J5Schema.tla (program-building state machine), spec/J5Compile.tla (Contract, model properties),
spec/CompileOrder.tla (PackageSet as a history-independent cache), trace specs J5CompileTrace.tla / CompileOrderTrace.tla.
Harness: harness/schema_ast.go (AST -> .j5s printer), schema_project.go (projection + predicates), schema_drivers.go.
"""
import hashlib
import json
import os
import random

import vcheck
from vcheck import log

KNOWN_FILE = os.path.join(vcheck.VERIF, "known_findings.schema.jsonl")
LISTED_EDITS = {"field", "option", "decl"}   # the append edits the statement of C13 lists


def load_own_known(chk):
    if not os.path.exists(KNOWN_FILE):
        return
    have = {k["signature"] for k in chk.known}
    for line in open(KNOWN_FILE):
        line = line.strip()
        if not line or line.startswith("#"):
            continue
        k = json.loads(line)
        if k.get("property") == chk.prop and k["signature"] not in have:
            chk.known.append(k)


def ast_id(ast):
    return hashlib.sha1(json.dumps(ast, sort_keys=True, separators=(",", ":")).encode()).hexdigest()[:16]


def check_model(chk, r, what):
    if r.violated:
        chk.notes.append("model property %s violated in %s" % (r.violated, what))
        chk.machinery_errors.append("model-level property %s violated in %s (specification / generator defect, not a code verdict):\n%s"
                                    % (r.violated, what, r.output[-2500:]))


# ----------------------------------------------------------------------------------------------------------
# program space

def model_programs(chk, tier, want):
    """Run the J5Compile configurations of the tier; returns the list of emitted cases (with duplicates by AST removed
    when want == 'programs', kept as histories when want == 'histories')."""
    quick = tier == "quick"
    cases = []
    r = chk.tlc("J5CompileMC.tla", "J5Compile_quick.cfg", "focus1", workers=8, timeout=1200, heap="12g", coverage=True)
    check_model(chk, r, "J5Compile_quick")
    chk.extra_cov["action_coverage"] = {k.split("@")[0][1:]: v for k, v in sorted(r.coverage.items()) if k.startswith("CAdd") or k.startswith("CNest")}
    cases += r.cases
    chk.exhaustive = True      # the one-focus space is enumerated and replayed completely (simulation adds samples on top)
    if not quick:
        r = chk.tlc("J5CompileMC.tla", "J5Compile_pairs.cfg", "focus2", workers=8, timeout=2400, heap="16g")
        check_model(chk, r, "J5Compile_pairs")
        pairs = r.cases
        rng = random.Random(chk.seed)
        if len(pairs) > 60000:      # all pairs are model-checked; a seeded half is replayed
            rng.shuffle(pairs)
            chk.notes.append("two-focus programs: %d model-checked, %d replayed (seeded sample)" % (len(pairs), 60000))
            pairs = pairs[:60000]
            chk.exhaustive = False
        cases += pairs
        r = chk.tlc("J5CompileMC.tla", "J5Compile_deep.cfg", "deep", workers=8, timeout=2400, heap="16g")
        check_model(chk, r, "J5Compile_deep")
        cases += r.cases
    nsim = 60 if quick else 1500
    r = chk.tlc("J5CompileMC.tla", "J5Compile_sim.cfg", "sim", workers=1 if quick else 8, simulate=nsim if quick else nsim // 8,
                depth=16, seed=chk.seed, timeout=1800, heap="8g")
    check_model(chk, r, "J5Compile_sim")
    chk.extra_cov["simulated_deep_programs"] = len(r.cases)
    cases += r.cases
    seen = set()
    out = []
    for c in cases:
        c["id"] = ast_id(c["ast"])
        key = c["id"] if want == "programs" else c["id"] + "|" + json.dumps(c["hist"], sort_keys=True)
        if key in seen:
            continue
        seen.add(key)
        out.append(c)
    return out


def crashes_to_rejections(results):
    """A compiler crash or hang on a generated program (fatal stack overflow, time-out) is C07's subject: for C02/C13/C14 the
    program is a rejected one. Panics are already recovered inside the drivers."""
    n = 0
    for e in results:
        if e.get("crash") or e.get("timeout") or e.get("panic"):
            why = "time-out" if e.get("timeout") else (e.get("crash") or e.get("panic") or "").split("\n")[0][:120]
            if (e.get("crash") or "").startswith("harness:"):
                continue
            e["out"] = {"note": "rejected: crash: " + why, "obs": {"rejected": True, "error": "crash: " + why}}
            e.pop("crash", None), e.pop("timeout", None), e.pop("panic", None)
            n += 1
    return n


def note_rejections(chk, cases, results):
    """Programs the real compiler rejects are not C02/C13/C14 violations (C07 owns acceptance): count and list them."""
    by = {}
    nskip = 0
    for c, e in zip(cases, results):
        out = e.get("out") or {}
        if out.get("skip"):
            nskip += 1
            continue
        obs = out.get("obs") or {}
        if isinstance(obs, dict) and obs.get("rejected"):
            err = obs.get("error", "")
            cls = "panic" if err.startswith("panic") else ("crash" if err.startswith("crash") else err.split(":")[-1].strip()[:80])
            k = (c.get("focus") or c.get("bundle") or "minimal").split("+")[-1] + " :: " + cls
            by.setdefault(k, [0, err[:200]])
            by[k][0] += 1
    if nskip:
        chk.machinery_errors.append("%d case(s) could not be parsed by the harness" % nskip)
    total = sum(v[0] for v in by.values())
    chk.extra_cov["rejected_programs"] = chk.extra_cov.get("rejected_programs", 0) + total
    lst = chk.extra_cov.setdefault("rejected_classes", {})
    for k, v in sorted(by.items(), key=lambda kv: -kv[1][0])[:40]:
        lst[k] = lst.get(k, 0) + v[0]
    if total:
        chk.notes.append("%d generated program(s) are rejected by the real compiler (not a %s violation; see C07): %s"
                         % (total, chk.prop, "; ".join("%s x%d" % (k, v[0]) for k, v in sorted(by.items(), key=lambda kv: -kv[1][0])[:6])))
    return total


def mark_traced(payload, n, rng):
    """Direction T uses a seeded sample of the cases: only those record events."""
    idx = list(range(len(payload)))
    rng.shuffle(idx)
    for i in idx[:n]:
        payload[i]["ev"] = True


def collect_events(results, limit=None, rng=None):
    idx = list(range(len(results)))
    if limit is not None and len(idx) > limit:
        rng.shuffle(idx)
        idx = sorted(idx[:limit])
    ev = []
    n = 0
    for i in idx:
        x = (results[i].get("out") or {}).get("events")
        if x:
            ev += x
            n += 1
    return ev, n


def validate(chk, spec, cfg, events, name, laws):
    """Direction T. Returns 'ok' | 'law' | other."""
    path = os.path.join(chk.dir, name + ".trace.ndjson")
    vcheck.write_ndjson(path, events)
    r = chk.tlc(spec, cfg, name, workers=1, env={"VERIF_TRACE": path}, timeout=1800, heap="8g")
    done = [o for (t, o) in r.lines if t == "TRACEDONE"]
    if r.violated in laws:
        return "law", r, done
    if r.violated:
        return "model", r, done
    if not done or done[0]["events"] != len(events):
        return "incomplete", r, done
    return "ok", r, done


def finish_trace(chk, verdict, tr, done, ntraces, nevents, what):
    if verdict == "ok":
        chk.traces_validated += ntraces
        chk.trace_events += nevents
        d = (done[0].get("drift") or 0) if done else 0
        if d:
            chk.drift["%s|trace-nonconforming" % chk.prop] = chk.drift.get("%s|trace-nonconforming" % chk.prop, 0) + d
    elif verdict == "law":
        # TLC found the law broken on recorded real values; the per-case predicate evaluates the same law, so a violation
        # (or known finding) must already be recorded; otherwise the two oracles disagree
        if not chk.violations and not chk.known_hits:
            chk.machinery_errors.append("%s reports %s violated on the recorded values but no per-case violation was recorded:\n%s"
                                        % (what, tr.violated, tr.output[-1500:]))
        else:
            chk.notes.append("%s: law %s fails on the recorded real values (coincides with the per-case violations)" % (what, tr.violated))
    else:
        chk.machinery_errors.append("%s: trace validation %s: %s\n%s" % (what, verdict, tr.violated or tr.error, tr.output[-1500:]))


# ----------------------------------------------------------------------------------------------------------
# C02

def run_c02(chk):
    quick = chk.tier == "quick"
    rng = random.Random(chk.seed)
    chk.rule = ("cases are the reachable programs of spec/J5Schema.tla: every base bundle (one file; two files; two packages with "
                "package / alias / file-path imports) extended by every chain of <= 3 append steps that contains at most one focus "
                "construct of the language catalogue (every scalar kind x single/array/map x presence spelling, every reference form, "
                "inline object/oneof/enum with default or overridden name and nesting depth 2, name spellings, enum variants, services "
                "with every verb x path-parameter pattern x response/none, publish/reqres/upsert topics, nested declarations), plus "
                "deep random programs by TLC simulation (thorough: all two-focus pairs and 4-step chains); each case carries the model's "
                "Contract; non-trivial = the compiled output has at least one field, enum value or method; distinct by AST")
    chk.assumptions += [
        "the AST -> .j5s printer (harness/schema_ast.go) and the projection (schema_project.go) are trusted, small and deterministic",
        "a program the real compiler rejects is counted (rejected_programs) and not judged here: acceptance is property C07",
        "service names, topic names, sub-package file names, extra imports and the file a type lands in are compared as drift only "
        "(the statement lists messages, fields, enum values, nesting, sub-packages, request/response/message types, verb, path, role)",
        "entities are outside this work package's generator (property C17)",
    ]
    cases = model_programs(chk, chk.tier, "programs")
    payload = [{"id": c["id"], "focus": c["focus"], "ast": c["ast"], "contract": c["contract"]} for c in cases]
    mark_traced(payload, 700 if quick else 5000, rng)
    res = chk.replay("schema-contract", payload, "contract", workers=8, timeout="30s")
    chk.extra_cov["compiler_crashes"] = crashes_to_rejections(res)
    chk.absorb("schema-contract", payload, res)
    note_rejections(chk, payload, res)
    chk.extra_cov["programs"] = len(payload)
    chk.extra_cov["focus_constructs"] = len({c["focus"] for c in cases})
    # direction T
    events, n = collect_events(res)
    verdict, tr, done = validate(chk, "J5CompileTraceMC.tla", "J5Compile_trace.cfg", events, "trace",
                                 ("LawNumbers", "LawEnumNumbers", "LawNames", "LawAppend"))
    finish_trace(chk, verdict, tr, done, n, len(events), "J5CompileTrace")


# ----------------------------------------------------------------------------------------------------------
# C13

def undo(ast, edit):
    """The program before an append edit: remove the last element of `list` of the node at `path`."""
    a = json.loads(json.dumps(ast))
    node = a
    for st in edit["path"]:
        node = node[st["f"]]
        if st["i"]:
            node = node[st["i"] - 1]
    node[edit["list"]].pop()
    return a


def chains(cases):
    """One case per maximal history: the program with all its earlier versions."""
    # a history that is a proper prefix of another emitted history is covered by the longer one
    prefixes = set()
    for c in cases:
        h = c["hist"]
        for k in range(len(h)):
            prefixes.add((ast_id_of_prefix(c, k)))
    out = []
    for c in cases:
        if not c["hist"]:
            continue
        if (c["id"], len(c["hist"])) in prefixes:
            continue
        out.append(c)
    return out


def ast_id_of_prefix(c, k):
    # identity of the k-step prefix of c's history: (ast id, k) computed lazily by undoing
    cache = c.setdefault("_pre", {})
    if not cache:
        a = c["ast"]
        cache[len(c["hist"])] = a
        for j in range(len(c["hist"]) - 1, -1, -1):
            a = undo(a, c["hist"][j])
            cache[j] = a
    return (ast_id(cache[k]), k)


def run_c13(chk):
    quick = chk.tier == "quick"
    rng = random.Random(chk.seed)
    chk.rule = ("every transition of spec/J5Schema.tla is an append edit (a field at the end of an object / oneof / request / response / "
                "topic message / inline type, an option at the end of an enum, a declaration at the end of a file, ...); a case is a "
                "maximal history base -> ... -> program of <= 3 such edits (deep histories of <= 14 edits by simulation) and both ends of every "
                "pair (earlier version, final version) are compiled with the real compiler and compared; non-trivial = at least one earlier "
                "version compiled and the final output has a field, enum value or method; distinct by final AST + history")
    chk.assumptions += [
        "edits the statement lists (field, enum option, top-level declaration) decide the verdict; the same comparison for the other append "
        "steps of the model (method, topic message, nested declaration, import, file, package) is reported as drift only",
        "a version the real compiler rejects is skipped (C07)",
    ]
    cases = model_programs(chk, chk.tier, "histories")
    leaf = chains(cases)
    chk.extra_cov["histories_model_checked"] = len(leaf)
    cap = 10000 if quick else 120000
    if len(leaf) > cap:     # every edge is checked on the model (AppendStable); a seeded sample is replayed on the real compiler
        rng.shuffle(leaf)
        chk.notes.append("%d maximal histories model-checked, %d replayed (seeded sample)" % (len(leaf), cap))
        leaf = leaf[:cap]
        chk.exhaustive = False
    payload = []
    for c in leaf:
        pre = c["_pre"]
        h = c["hist"]
        befores = []
        for k in range(len(h) - 1, -1, -1):
            kinds = {e["kind"] for e in h[k:]}
            labels = ["%s:%s" % (e["kind"], e["label"] or "minimal") for e in h[k:]]
            befores.append({"ast": pre[k], "edits": labels, "listed": kinds <= LISTED_EDITS})
        payload.append({"id": c["id"] + ":" + str(len(h)), "focus": c["focus"], "ast": c["ast"], "befores": befores})
    rng.shuffle(payload)
    mark_traced(payload, 1500 if quick else 10000, rng)
    res = chk.replay("schema-append", payload, "append", workers=8, timeout="60s")
    chk.extra_cov["compiler_crashes"] = crashes_to_rejections(res)
    chk.absorb("schema-append", payload, res)
    note_rejections(chk, payload, res)
    chk.extra_cov["histories"] = len(payload)
    chk.extra_cov["version_pairs"] = sum(len(p["befores"]) for p in payload)
    chk.extra_cov["listed_edit_pairs"] = sum(1 for p in payload for b in p["befores"] if b["listed"])
    events, n = collect_events(res)
    verdict, tr, done = validate(chk, "J5CompileTraceMC.tla", "J5Compile_trace.cfg", events, "trace",
                                 ("LawAppend",))
    finish_trace(chk, verdict, tr, done, n, len(events), "J5CompileTrace")


# ----------------------------------------------------------------------------------------------------------
# C14

def order_key(c):
    calls = [{k: v for k, v in call.items() if k != "loads"} for call in c["calls"]]
    return json.dumps([c["bundle"], calls], sort_keys=True)


def run_c14(chk):
    quick = chk.tier == "quick"
    rng = random.Random(chk.seed)
    chk.rule = ("(i) histories of spec/CompileOrder.tla: every permutation of the package listing and of each package's file listing x every "
                "sequence of 3 CompilePackage calls x fresh-vs-reused PackageSet, for a 2-package x 3-file bundle (thorough: also 3 x 3) with "
                "cross-package imports and the same type name declared in several packages; each history runs k times in one process and the "
                "whole set again in separate worker processes; every call's ordered list of (deterministic Marshal of the FileDescriptorProto, "
                "PrintFile text) is compared with the package compiled alone on a fresh set with the sorted listing, and that reference across "
                "all processes; (ii) programs of spec/J5Schema.tla compiled under permuted listings on fresh and reused sets; "
                "non-trivial = at least one CompilePackage call compared; distinct by bundle + history")
    chk.assumptions += [
        "Go map iteration order cannot be forced; it is sampled by the repetitions (k in-process, m processes)",
        "the order of the files returned by CompilePackage is part of the compared output",
        "the invalid bundle with one type name declared in two files of a package is explored by the model and executed for information only",
    ]
    # --- model sanity: the design leaks listing order when a name is declared twice in a package, or without the sort
    r = chk.tlc("CompileOrderMC.tla", "CompileOrder_dup.cfg", "dup", workers=4, timeout=600)
    chk.extra_cov["model_dup_bundle_violates"] = r.violated
    if r.violated != "HistoryIndependent":
        chk.machinery_errors.append("CompileOrder: duplicate-export bundle does not violate HistoryIndependent: the model is vacuous")
    r = chk.tlc("CompileOrderMC.tla", "CompileOrder_nosort.cfg", "nosort", workers=4, timeout=600)
    chk.extra_cov["model_without_sort_violates"] = r.violated
    if r.violated != "HistoryIndependent":
        chk.machinery_errors.append("CompileOrder: SortFiles = FALSE does not violate HistoryIndependent: the model is vacuous")
    # --- histories
    bundles = [("b23", "CompileOrder_b23.cfg", "CompileOrder_trace23.cfg")]
    if not quick:
        bundles.append(("b33", "CompileOrder_b33.cfg", "CompileOrder_trace33.cfg"))
    else:
        bundles.append(("b33", "CompileOrder_b33q.cfg", "CompileOrder_trace33.cfg"))
    bundles.append(("clash", "CompileOrder_clash.cfg", "CompileOrder_traceclash.cfg"))
    bundles.append(("nested", "CompileOrder_nested.cfg", "CompileOrder_tracenested.cfg"))
    all_payload = []
    per_bundle = {}
    for name, cfg, tcfg in bundles:
        r = chk.tlc("CompileOrderMC.tla", cfg, "order_" + name, workers=8, timeout=3000, heap="16g")
        check_model(chk, r, cfg)
        seen = {}
        for c in r.cases:
            seen.setdefault(order_key(c), c)
        hs = list(seen.values())
        chk.extra_cov["histories_" + name] = len(hs)
        lim = (700 if name == "b23" else 300) if quick else (4000 if name == "b23" else 6000)
        if len(hs) > lim:
            rng.shuffle(hs)
            chk.notes.append("%s: %d distinct histories model-checked, %d replayed (seeded sample)" % (name, len(hs), lim))
            hs = hs[:lim]
        for c in hs:
            c["reps"] = 3 if quick else 4
        per_bundle[name] = (hs, tcfg)
        all_payload += hs
    res = chk.replay("schema-order", all_payload, "order", workers=8, timeout="120s")
    chk.absorb("schema-order", all_payload, res)
    note_rejections(chk, all_payload, res)
    refs = {}
    collect_refs(chk, all_payload, res, refs, "run0")
    # the same histories again in fresh worker processes (other hash seeds)
    m = 2 if quick else 8
    sub = all_payload[:]
    rng.shuffle(sub)
    sub = sub[: (120 if quick else 600)]
    for k in range(1, m):
        res2 = chk.replay("schema-order", sub, "order_proc%d" % k, workers=8, timeout="120s")
        chk.absorb("schema-order", sub, res2)
        collect_refs(chk, sub, res2, refs, "run%d" % k)
    chk.extra_cov["worker_process_rounds"] = m
    # --- published dependencies in two versions: every history of spec/DepVersions.tla in a process of its own
    rd = chk.tlc("DepVersions.tla", "DepVersions.cfg", "depversions", workers=1, timeout=300)
    if rd.violated or rd.error:
        chk.machinery_errors.append("DepVersions: %s %s" % (rd.violated, (rd.error or "")[:300]))
    seen_dep = {}
    ndep = 0
    for c in rd.cases:
        p = chk.vh_one("schema-deps", c, timeout=120)
        try:
            env = json.loads(p.stdout[p.stdout.index("{"):])
        except Exception:
            chk.machinery_errors.append("schema-deps gave no result for %s: %s" % (c, (p.stdout + p.stderr)[-400:]))
            continue
        chk.absorb("schema-deps", [c], [env])
        ndep += 1
        for v, ds in (((env.get("out") or {}).get("obs") or {}).get("digests") or {}).items():
            for d in ds:
                if v not in seen_dep:
                    seen_dep[v] = (d, c)
                elif seen_dep[v][0] != d:
                    chk.violation("schema-deps", c, "C14|dependency-version|cross-process",
                                  "the bundle compiled against dependency %s gives %s after history %s and %s after history %s (each in a fresh process)"
                                  % (v, d, c["history"], seen_dep[v][0], seen_dep[v][1]["history"]))
    chk.extra_cov["dependency_version_histories"] = ndep
    # --- the invalid bundle, for information
    r = chk.tlc("CompileOrderMC.tla", "CompileOrder_dupcases.cfg", "dupcases", workers=4, timeout=600)
    dres = chk.replay("schema-order", r.cases, "order_dup", workers=4, timeout="120s")
    leaks = sum(1 for e in dres if ((e.get("out") or {}).get("obs") or {}).get("leak"))
    chk.extra_cov["invalid_dup_bundle_histories"] = len(r.cases)
    chk.extra_cov["invalid_dup_bundle_histories_with_order_leak"] = leaks
    if leaks:
        chk.notes.append("invalid bundle (a type declared in two files of one package): %d of %d histories produce an output for the "
                         "importing package, or an accept/reject outcome, that depends on the file listing or on earlier calls; not a C14 "
                         "violation (the bundle is not valid), recorded for information" % (leaks, len(r.cases)))
    # --- (ii) program space under permuted listings
    pr = chk.tlc("J5CompileMC.tla", "J5Compile_lite.cfg" if quick else "J5Compile_quick.cfg", "programs", workers=8, timeout=1800, heap="12g")
    check_model(chk, pr, "J5Compile programs")
    progs = {}
    for c in pr.cases:
        progs.setdefault(ast_id(c["ast"]), c)
    plist = list(progs.values())
    multi = [c for c in plist if sum(len(p["files"]) for p in c["ast"]["pkgs"]) > 1]
    single = [c for c in plist if c not in multi] if len(plist) < 50000 else []
    rng.shuffle(multi)
    rng.shuffle(single)
    sel = multi[: (1200 if quick else 8000)] + single[: (600 if quick else 4000)]
    payload = [{"id": ast_id(c["ast"]), "focus": c["focus"], "ast": c["ast"], "reps": 3} for c in sel]
    res3 = chk.replay("schema-determ", payload, "determ", workers=8, timeout="120s")
    chk.extra_cov["compiler_crashes"] = crashes_to_rejections(res3)
    chk.absorb("schema-determ", payload, res3)
    note_rejections(chk, payload, res3)
    chk.extra_cov["programs_permuted"] = len(payload)
    refs2 = {}
    collect_refs(chk, payload, res3, refs2, "run0", keyf=lambda c: c["id"])
    sub = payload[: (200 if quick else 1500)]
    res4 = chk.replay("schema-determ", sub, "determ_proc1", workers=8, timeout="120s")
    chk.absorb("schema-determ", sub, res4)
    collect_refs(chk, sub, res4, refs2, "run1", keyf=lambda c: c["id"])
    # --- (iii) entity declarations (spec/J5Entity.tla): the generated files carry several extension options on one element
    # (psm + message on Keys / Data / State / Event), services, topics - printed repeatedly, with and without the generated
    # files committed next to the source
    re_ = chk.tlc("J5EntityMC.tla", "J5Entity_quick.cfg", "entities", workers=8, timeout=1800)
    ents = re_.cases
    re_.cases = []
    random.Random(chk.seed).shuffle(ents)
    seen_e, first_e, rest_e = set(), [], []
    for c in ents:
        k = c.get("focus", "")
        (rest_e if k in seen_e else first_e).append(c)
        seen_e.add(k)
    ents = (first_e + rest_e)[: (250 if quick else 3000)]
    pres = chk.replay("entity-print", ents, "entprint", workers=8, timeout="60s")
    eraw = []
    for e in pres:
        note = ((e.get("out") or {}).get("note") or "").split("\nERROR:")[0]
        if note:
            eraw.append({"id": "entity-%d" % len(eraw), "focus": "entity", "files": {"foo/v1/wallet.j5s": note}, "reps": 4})
    rese = chk.replay("schema-determ", eraw, "determ_ent", workers=8, timeout="120s")
    crashes_to_rejections(rese)
    chk.absorb("schema-determ", eraw, rese)
    note_rejections(chk, eraw, rese)
    chk.extra_cov["entity_declarations_permuted"] = len(eraw)
    if not eraw:
        chk.machinery_errors.append("no entity declaration reached the determinism driver")
    # --- direction T
    for name, (hs, tcfg) in per_bundle.items():
        idx = {id(c): i for i, c in enumerate(all_payload)}
        rs = [res[idx[id(c)]] for c in hs]
        events, n = collect_events(rs, limit=250 if quick else 1500, rng=rng)
        if not events:
            continue
        verdict, tr, done = validate(chk, "CompileOrderTraceMC.tla", tcfg, events, "trace_" + name,
                                     ("LawDeterministic",))
        finish_trace(chk, verdict, tr, done, n, len(events), "CompileOrderTrace/" + name)


def collect_refs(chk, cases, results, refs, run, keyf=None):
    """Cross-process / cross-case determinism: the reference digest of a package of a bundle must be the same everywhere."""
    for c, e in zip(cases, results):
        obs = (e.get("out") or {}).get("obs") or {}
        ref = obs.get("ref") if isinstance(obs, dict) else None
        if not ref or obs.get("valid") is False:
            continue
        b = keyf(c) if keyf else c["bundle"]
        for p, d in ref.items():
            k = (b, p)
            if k not in refs:
                refs[k] = (d, run)
            elif refs[k][0] != d:
                chk.violation("schema-order" if keyf is None else "schema-determ", c,
                              "C14|cross-process|%s" % (c.get("bundle") or c.get("focus") or "program"),
                              "package %s compiled from the same sources on a fresh set gives digest %s in %s and %s in %s"
                              % (p, refs[k][0], refs[k][1], d, run))


def run(chk):
    load_own_known(chk)
    if chk.prop == "C02":
        run_c02(chk)
    elif chk.prop == "C13":
        run_c13(chk)
    elif chk.prop == "C14":
        run_c14(chk)
    else:
        raise vcheck.MachineryError("p_schema: unknown property " + chk.prop)


def replay(prop, path):
    import check
    return check.generic_replay(prop, path)


# ----------------------------------------------------------------------------------------------------------
# self-test (V4)

def selftest(prop):
    chk = vcheck.Check(prop, "selftest")
    ok = True

    def fail(msg):
        nonlocal ok
        ok = False
        log("SELFTEST-FAIL %s: %s" % (prop, msg))

    if prop in ("C02", "C13"):
        r = chk.tlc("J5CompileMC.tla", "J5Compile_lite.cfg", "lite", workers=8, timeout=900, heap="8g")
        cases = [c for c in r.cases if c["steps"] == 3 and c["contract"]["fields"]][:400]
        for c in cases:
            c["id"] = ast_id(c["ast"])
    if prop == "C02":
        # 1. a corrupted prediction (= an implementation that numbers / names differently) must be flagged per attribute
        payload = []
        for i, c in enumerate(cases[:120]):
            con = json.loads(json.dumps(c["contract"]))
            f = con["fields"][0]
            if i % 3 == 0:
                f["number"] += 1
            elif i % 3 == 1:
                f["name"] = f["name"] + "_x"
            else:
                f["label"] = "repeated" if f["label"] == "optional" else "optional"
            payload.append({"id": c["id"], "focus": c["focus"], "ast": c["ast"], "contract": con})
        res = chk.replay("schema-contract", payload, "st_corrupt", workers=8)
        missed = sum(1 for p, e in zip(payload, res)
                     if not (e.get("out") or {}).get("viol") and not ((e.get("out") or {}).get("obs") or {}).get("rejected"))
        if missed:
            fail("%d corrupted predictions were not flagged by schema-contract" % missed)
        # 2. pristine trace accepted, corrupted recorded field number rejected by the law, corrupted type counted as drift
        good = [{"id": c["id"], "focus": c["focus"], "ast": c["ast"], "contract": c["contract"], "ev": True} for c in cases[:60]]
        res = chk.replay("schema-contract", good, "st_good", workers=8)
        events, n = collect_events(res)
        v, tr, done = validate(chk, "J5CompileTraceMC.tla", "J5Compile_trace.cfg", events, "st_ok", ("LawNumbers", "LawEnumNumbers", "LawNames", "LawAppend"))
        if v != "ok" or (done and done[0].get("drift")):
            fail("pristine trace not accepted (%s)" % v)
        bad = json.loads(json.dumps(events))
        e = next(x for x in bad if x["real"]["fields"])
        e["real"]["fields"][0]["number"] += 7
        v, tr, done = validate(chk, "J5CompileTraceMC.tla", "J5Compile_trace.cfg", bad, "st_law", ("LawNumbers",))
        if v != "law":
            fail("recorded field number gap not rejected (%s)" % v)
        bad = json.loads(json.dumps(events))
        e = next(x for x in bad if x["real"]["fields"])
        e["real"]["fields"][0]["type"] = "sint32"
        v, tr, done = validate(chk, "J5CompileTraceMC.tla", "J5Compile_trace.cfg", bad, "st_drift", ("LawNumbers",))
        if v != "ok" or not done or done[0].get("drift") != 1:
            fail("recorded wrong type not counted as non-conformance (%s)" % v)
    elif prop == "C13":
        def has_two(c):
            return any(d.get("kind") == "object" and len(d.get("fields", [])) >= 2
                       for pk in c["ast"]["pkgs"] for fl in pk["files"] if fl.get("kind") != "proto" for d in fl["decls"])
        allc = [c for c in r.cases if c["steps"] == 3 and has_two(c)]
        for c in allc:
            c["id"] = ast_id(c["ast"])
        leaf = chains(allc)[:80]
        payload = []
        for c in leaf:
            pre, h = c["_pre"], c["hist"]
            befores = [{"ast": pre[k], "edits": [e["kind"] for e in h[k:]], "listed": True} for k in range(len(h) - 1, -1, -1)]
            payload.append({"id": c["id"], "focus": c["focus"], "ast": c["ast"], "befores": befores, "ev": True})
        res = chk.replay("schema-append", payload, "st_good", workers=8)
        if any((e.get("out") or {}).get("viol") for e in res):
            fail("pristine histories flagged")
        # a "later version" that reorders fields: swap two fields of the final program so that positions (numbers) change
        bad = []
        for p in payload:
            a = json.loads(json.dumps(p["ast"]))
            done_swap = False
            for pk in a["pkgs"]:
                for fl in pk["files"]:
                    if fl.get("kind") == "proto":
                        continue
                    for d in fl["decls"]:
                        if d.get("kind") == "object" and len(d.get("fields", [])) >= 2 and not done_swap:
                            d["fields"][0], d["fields"][-1] = d["fields"][-1], d["fields"][0]
                            done_swap = True
            if done_swap:
                bad.append({"id": p["id"] + "x", "focus": p["focus"], "ast": a, "befores": p["befores"], "ev": True})
        res = chk.replay("schema-append", bad, "st_swap", workers=8)
        missed = sum(1 for e in res if not (e.get("out") or {}).get("viol") and not ((e.get("out") or {}).get("obs") or {}).get("rejected"))
        if not bad or missed:
            fail("%d of %d histories whose last version reorders fields were not flagged" % (missed, len(bad)))
        events, n = collect_events(res)
        v, tr, done = validate(chk, "J5CompileTraceMC.tla", "J5Compile_trace.cfg", events, "st_law", ("LawAppend",))
        if v != "law":
            fail("trace of reordered versions not rejected by LawAppend (%s)" % v)
    elif prop == "C14":
        r = chk.tlc("CompileOrderMC.tla", "CompileOrder_b23.cfg", "b23", workers=8, timeout=900)
        hs = r.cases[:40]
        for c in hs:
            c["reps"] = 2
        res = chk.replay("schema-order", hs, "st", workers=8, timeout="120s")
        if any((e.get("out") or {}).get("viol") for e in res):
            fail("pristine histories flagged")
        events, n = collect_events(res)
        v, tr, done = validate(chk, "CompileOrderTraceMC.tla", "CompileOrder_trace23.cfg", events, "st_ok", ("LawDeterministic",))
        if v != "ok":
            fail("pristine trace not accepted (%s)" % v)
        bad = json.loads(json.dumps(events))
        e = [x for x in bad if x["op"] == "compile"][5]
        e["digest"] = "0000000000000000"
        v, tr, done = validate(chk, "CompileOrderTraceMC.tla", "CompileOrder_trace23.cfg", bad, "st_law", ("LawDeterministic",))
        if v != "law":
            fail("a differing recorded digest was not rejected (%s)" % v)
        bad = [x for x in events]
        i = next(k for k, x in enumerate(bad) if x["op"] == "new")
        bad = bad[:i] + bad[i + 1:]
        v, tr, done = validate(chk, "CompileOrderTraceMC.tla", "CompileOrder_trace23.cfg", bad, "st_drop", ("LawDeterministic",))
        if v == "ok":
            fail("a trace with a dropped NewPackageSet event was accepted")
    log("SELFTEST %s %s" % ("ok" if ok else "FAILED", prop))
    return 0 if ok else 2
