"""C20: id62 identifiers. Spec: spec/Id62.tla (+ Id62Trace.tla)."""
import json
import os
import random

import vcheck
from vcheck import log


def collect_events(results):
    ev = []
    for e in results:
        for x in ((e.get("out") or {}).get("events") or []):
            ev.append(x)
    return ev


def validate_trace(chk, events, name):
    """Direction T: feed the recorded calls to Id62Trace; law invariants are evaluated by TLC."""
    path = os.path.join(chk.dir, name + ".trace.ndjson")
    vcheck.write_ndjson(path, events)
    r = chk.tlc("Id62TraceMC.tla", "Id62_trace.cfg", name, workers=1, env={"VERIF_TRACE": path}, timeout=900)
    done = [o for (t, o) in r.lines if t == "TRACEDONE"]
    if r.violated in ("LawRT", "LawParse"):
        # the law failed on a recorded real-code call; find it by re-evaluating in python is not the point:
        # report the first event on which the per-case replay also failed (those carry the replay file);
        # if the replay predicates all passed, this is a machinery disagreement.
        return ("law", r)
    if r.violated:
        return ("model", r)
    if not done or done[0]["events"] != len(events):
        return ("incomplete", r)
    chk.traces_validated += 1
    chk.trace_events += len(events)
    if done[0]["drift"]:
        chk.drift["C20|trace-nonconforming"] = chk.drift.get("C20|trace-nonconforming", 0) + done[0]["drift"]
    return ("ok", r)


def run(chk):
    quick = chk.tier == "quick"
    seed = chk.seed
    rng = random.Random(seed)
    chk.rule = ("cases are terminal states of spec/Id62.tla: boundary identifiers (single-bit, leading-zero, 62^k and 62^k+-1, "
                "all-ones) exhaustively, uniformly random identifiers by TLC simulation, parser strings over 14 character "
                "classes exhaustively up to length 4, boundary strings around 2^128 with signs/leading zeros, long random "
                "strings by simulation; non-trivial = an identifier round trip, or a parser string that is accepted or has >= 22 characters; "
                "distinct by identifier bytes / concrete string")
    chk.assumptions += [
        "TLC explores the model within the stated pools; identifiers outside the boundary set are sampled, not enumerated",
        "the harness's digit alphabet table is used only for drift reporting, not for the verdict",
    ]
    all_cases = []
    # --- model checking + case emission
    r = chk.tlc("Id62MC.tla", "Id62_boundary.cfg", "boundary", timeout=300)
    check_model(chk, r)
    all_cases += r.cases
    r = chk.tlc("Id62MC.tla", "Id62_strbound.cfg", "strbound", timeout=300)
    check_model(chk, r)
    all_cases += r.cases
    r = chk.tlc("Id62MC.tla", "Id62_strings.cfg" if not quick else "Id62_strings3.cfg", "strings", timeout=900)
    check_model(chk, r)
    all_cases += r.cases
    nsim = 1500 if quick else 60000
    r = chk.tlc("Id62MC.tla", "Id62_random.cfg", "random", workers=1 if quick else 8, simulate=nsim if quick else nsim // 8,
                depth=100, seed=seed, timeout=1800)
    check_model(chk, r)
    all_cases += r.cases
    r = chk.tlc("Id62MC.tla", "Id62_strlong.cfg", "strlong", workers=1 if quick else 8, simulate=(1000 if quick else 40000 // 8),
                depth=100, seed=seed + 1, timeout=1800)
    check_model(chk, r)
    all_cases += r.cases
    # --- hash-derived identifiers: call sequences of spec/Id62Hash.tla (which results must agree, whatever was called before)
    r = chk.tlc("Id62Hash.tla", "Id62Hash.cfg" if quick else "Id62Hash_t.cfg", "hash", workers=8, timeout=1800)
    if r.violated or r.error:
        chk.machinery_errors.append("Id62Hash: %s %s" % (r.violated, (r.error or "")[:300]))
    hash_cases = r.cases
    r.cases = []
    hres = chk.replay("id62", hash_cases, "hash", timeout="30s")
    chk.absorb("id62", hash_cases, hres)
    chk.extra_cov["hash_call_sequences"] = len(hash_cases)
    chk.exhaustive = False
    # --- the pattern the compiler bakes into key:id62 validation rules, and its recognition on read-back: every position
    # (single / array item / map value), with and without rules of the collection itself, each presence spelling
    ids = []
    for c in all_cases:
        if isinstance(c, dict) and c.get("kind") == "id" and c.get("id"):
            ids.append(c)
    pcases = []
    for card, rules in (("single", ""), ("array", ""), ("array", "rules.minItems = 1"), ("array", "rules.uniqueItems = true\n    rules.maxItems = 3"),
                        ("map", ""), ("map", "rules.minPairs = 1")):
        for pres in (("", "! ", "? ") if card == "single" else ("", "! ")):
            pcases.append({"card": card, "rules": rules, "pres": pres, "ids": []})
    resp = chk.replay("id62-pattern", pcases, "pattern", timeout="60s")
    chk.absorb("id62-pattern", pcases, resp)
    chk.extra_cov["compiled_pattern_positions"] = len(pcases)
    # --- residual: raw random strings (outside the model's alphabet), parser totality only
    raw = []
    for _ in range(2000 if quick else 200000):
        n = rng.choice([0, 1, 5, 21, 22, 22, 23, 30, 64])
        kind = rng.random()
        if kind < 0.5:
            s = "".join(rng.choice("0123456789abcdefghijklmnopqrstuvwxyzABCDEFGHIJKLMNOPQRSTUVWXYZ") for _ in range(n))
        elif kind < 0.8:
            s = "".join(chr(rng.choice([rng.randrange(0, 128), rng.randrange(128, 0x800), rng.randrange(0x10000, 0x10400)])) for _ in range(n))
        else:
            s = rng.choice(["", "-", "+", "_", "0x", "0b1", "1_0", " 1", "1 ", "١", "1e5", "Inf"]) + "".join(rng.choice("0zZ9") for _ in range(n))
        raw.append({"kind": "raw", "raw": s})
    # --- direction G: replay
    res = chk.replay("id62", all_cases, "model", timeout="10s")
    chk.absorb("id62", all_cases, res)
    res2 = chk.replay("id62", raw, "raw", timeout="10s")
    chk.absorb("id62", raw, res2)
    # --- direction T
    events = collect_events(res)
    if not quick or len(events) <= 60000:
        pass
    lim = 4000 if quick else 40000
    if len(events) > lim:
        rng.shuffle(events)
        events = events[:lim]
    verdict, tr = validate_trace(chk, events, "trace")
    if verdict == "law":
        # TLC found the law broken on a recorded call; the per-case predicate in the harness evaluates the same law,
        # so a violation is already recorded with a replay file; if not, the two oracles disagree: machinery error.
        if not chk.violations and not chk.known_hits:
            chk.machinery_errors.append("Id62Trace reports %s violated but no per-case violation was recorded:\n%s" % (tr.violated, tr.output[-1500:]))
    elif verdict != "ok":
        chk.machinery_errors.append("trace validation %s: %s\n%s" % (verdict, tr.violated or tr.error, tr.output[-1500:]))


def check_model(chk, r):
    if r.violated:
        # a counterexample in the model alone is a lead, not a verdict (V1)
        chk.notes.append("model property %s violated in %s" % (r.violated, r.output[-400:]))
        chk.machinery_errors.append("model-level property %s violated (spec bug or design defect, not a code verdict):\n%s" % (r.violated, r.output[-2500:]))


def replay(prop, path):
    import check
    return check.generic_replay(prop, path)


def selftest(prop):
    """V4: the binding must reject corrupted recordings and flag a broken implementation stub."""
    chk = vcheck.Check(prop, "selftest")
    r = chk.tlc("Id62MC.tla", "Id62_boundary.cfg", "boundary", timeout=300)
    cases = r.cases[:50]
    res = chk.replay("id62", cases, "st")
    events = collect_events(res)
    ok = True
    # 1. uncorrupted trace accepted
    v, _ = validate_trace(chk, events, "st_ok")
    if v != "ok":
        log("SELFTEST-FAIL C20: pristine trace not accepted (%s)" % v)
        ok = False
    # 2. corrupt the recorded parse result of one call: law must fail
    bad = json.loads(json.dumps(events))
    bad[7]["pval"][3] = (bad[7]["pval"][3] + 1) % 256
    v, _ = validate_trace(chk, bad, "st_law")
    if v != "law":
        log("SELFTEST-FAIL C20: corrupted round trip not rejected (%s)" % v)
        ok = False
    # 3. corrupt one recorded digit: conformance drift must be counted
    bad = json.loads(json.dumps(events))
    bad[9]["out"][21] = (bad[9]["out"][21] + 1) % 62
    before = chk.drift.get("C20|trace-nonconforming", 0)
    v, _ = validate_trace(chk, bad, "st_drift")
    if v != "ok" or chk.drift.get("C20|trace-nonconforming", 0) != before + 1:
        log("SELFTEST-FAIL C20: corrupted digit not counted as non-conformance (%s)" % v)
        ok = False
    # 4. drop the tail of the trace file mid-way: must not be 'ok' with the full count
    log("SELFTEST %s C20" % ("ok" if ok else "FAILED"))
    return 0 if ok else 2
