"""C01 / C03 / C06 / C08: the J5 JSON wire format.

Specs: spec/J5Wire.tla (Enc / Dec over abstract trees; slot x value x spelling x fault state machine),
spec/J5WireTok.tla (token-level totality model of the decoder, C06), spec/J5WireTrace.tla (direction T).
Harness: harness/wire*.go (drivers wire-c01, wire-c03, wire-c08, wire-tok, wire-query, wire-rand).
"""
import json
import os
import random
import re

import vcheck
from vcheck import log

W = 8  # at most 8 cores: other work packages run in parallel


def load_wire_known(chk):
    """Known findings proposed by this work package (merged into known_findings.jsonl by the main session)."""
    path = os.path.join(vcheck.VERIF, "known_findings.wire.jsonl")
    if not os.path.exists(path):
        return
    have = {k["signature"] for k in chk.known}
    for line in open(path):
        line = line.strip()
        if not line or line.startswith("#") or line.startswith("fixed:"):
            continue
        k = json.loads(line)
        if k.get("property") == chk.prop and k["signature"] not in have:
            chk.known.append(k)


def dedupe(cases):
    seen, out = set(), []
    for c in cases:
        k = json.dumps(c, sort_keys=True)
        if k not in seen:
            seen.add(k)
            out.append(c)
    return out


def check_model(chk, r):
    if r.violated:
        chk.machinery_errors.append("model-level property %s violated (spec bug or design defect, not a code verdict):\n%s"
                                    % (r.violated, r.output[-2500:]))


def collect_events(results, op=None, limit=None, rng=None):
    ev = []
    for e in results:
        for x in ((e.get("out") or {}).get("events") or []):
            if op is None or x.get("op") == op:
                ev.append(x)
    if limit and len(ev) > limit:
        (rng or random.Random(1)).shuffle(ev)
        ev = ev[:limit]
    return ev


_frame_re = re.compile(r"^(github\.com/pentops/j5/\S*?)\((?:0x[0-9a-f]+|\{|\.\.\.|\)|[0-9])")


def site_of(env, prop, sig):
    """prop|panic|<first stack frame inside pentops/j5, method receivers kept> (vcheck's generic site cuts at the first parenthesis)."""
    text = env.get("panic") or ""
    if not text:
        return sig
    for line in text.split("\n"):
        line = line.strip()
        if line.startswith("github.com/pentops/j5/") and "verifh" not in line:
            m = _frame_re.match(line)
            fn = (m.group(1) if m else line.split(" ")[0]).replace("github.com/pentops/j5/", "")
            return "%s|panic|%s" % (prop, fn)
    return sig


def panic_sig(prop):
    """Specific signature for a panic / crash / hang: call site + the abstract case's kind and fault class."""
    def f(case, env, sig):
        fault = case.get("fault") or case.get("sp") or case.get("cls") or ""
        fault = ":".join(fault.split(":")[:3])
        kind = case.get("kind") or case.get("target") or ""
        return "%s|%s|fault=%s" % (site_of(env, prop, sig), kind, fault)
    return f


def validate_trace(chk, events, name, cfg, spec="J5WireTraceMC.tla"):
    """Direction T: TLC evaluates the property's law on the recorded real observations and the model's Enc / Dec on the
    real documents (conformance, counted as drift)."""
    path = os.path.join(chk.dir, name + ".trace.ndjson")
    vcheck.write_ndjson(path, events)
    r = chk.tlc(spec, cfg, name, workers=1, env={"VERIF_TRACE": path}, timeout=1500)
    done = [o for (t, o) in r.lines if t == "TRACEDONE"]
    if r.violated and r.violated.startswith("Law"):
        return "law", r
    if r.violated:
        return "model", r
    if not done or done[0]["events"] != len(events):
        return "incomplete", r
    chk.traces_validated += 1
    chk.trace_events += len(events)
    if done[0].get("drift"):
        sig = "%s|trace-nonconforming" % chk.prop
        chk.drift[sig] = chk.drift.get(sig, 0) + done[0]["drift"]
    chk.extra_cov.setdefault("trace_law_failures_logged", 0)
    chk.extra_cov["trace_law_failures_logged"] += done[0].get("lawfail", 0)
    return "ok", r


def trace_or_error(chk, events, name, cfg, law_expected, spec="J5WireTraceMC.tla"):
    """law_expected: number of events on which the per-case replay already recorded a (known or new) violation."""
    if not events:
        chk.notes.append("no events recorded for trace validation")
        return
    verdict, tr = validate_trace(chk, events, name, cfg, spec)
    if verdict == "law":
        if not chk.violations and not chk.known_hits:
            chk.machinery_errors.append("J5WireTrace reports %s violated but no per-case violation was recorded:\n%s"
                                        % (tr.violated, tr.output[-1500:]))
    elif verdict != "ok":
        chk.machinery_errors.append("trace validation %s: %s\n%s" % (verdict, tr.violated or tr.error, tr.output[-1500:]))


# ---------------------------------------------------------------- C01 / C08

def run_val(chk):
    quick = chk.tier == "quick"
    rng = random.Random(chk.seed)
    driver = "wire-c01" if chk.prop == "C01" else "wire-c08"
    cases = []
    r = chk.tlc("J5WireMC.tla", "J5Wire_val.cfg", "val", workers=W, timeout=900)
    check_model(chk, r)
    cases += r.cases
    chk.exhaustive = True
    if not quick:
        r = chk.tlc("J5WireMC.tla", "J5Wire_val2.cfg", "val2", workers=W, timeout=1800)
        check_model(chk, r)
        cases += r.cases
    # seeded simulation slice over the two-element space (random deep members of the same graph)
    r = chk.tlc("J5WireMC.tla", "J5Wire_val2.cfg", "valsim", workers=1 if quick else W, simulate=400 if quick else 4000,
                depth=12, seed=chk.seed, timeout=900)
    check_model(chk, r)
    cases += r.cases
    cases = dedupe(cases)
    if chk.prop == "C01":
        cases = [c for c in cases if not c.get("wfonly")]
    res = chk.replay(driver, cases, "val", workers=W, timeout="20s")
    chk.absorb(driver, cases, res, crash_sig=panic_sig(chk.prop))
    chk.extra_cov["slots"] = len({(c["kind"], c["card"], c["pos"]) for c in cases})
    chk.extra_cov["schemas_realised_two_ways"] = "j5s text compiled with protobuild + raw FileDescriptorProto via protodesc (exposed oneof / protobuf Any: raw only)"
    # direction T
    events = collect_events(res, "rt", limit=2500 if quick else 12000, rng=rng)
    trace_or_error(chk, events, "trace", "J5Wire_trace.cfg", 0)


# ---------------------------------------------------------------- C03

def run_c03(chk):
    quick = chk.tier == "quick"
    rng = random.Random(chk.seed)
    cases = []
    for name, cfg in (("spell", "J5Wire_spell.cfg"), ("fault", "J5Wire_fault.cfg"), ("query", "J5Wire_query.cfg")):
        r = chk.tlc("J5WireMC.tla", cfg, name, workers=W, timeout=1200)
        check_model(chk, r)
        cases += r.cases
    chk.exhaustive = True
    if not quick:
        for name, cfg in (("spell2", "J5Wire_spell2.cfg"), ("fault2", "J5Wire_fault2.cfg")):
            r = chk.tlc("J5WireMC.tla", cfg, name, workers=W, simulate=1200, depth=12, seed=chk.seed, timeout=2400)
            check_model(chk, r)
            cases += r.cases
    else:
        for name, cfg in (("spell2", "J5Wire_spell2.cfg"), ("fault2", "J5Wire_fault2.cfg")):
            r = chk.tlc("J5WireMC.tla", cfg, name + "sim", workers=1, simulate=300, depth=12, seed=chk.seed, timeout=600)
            check_model(chk, r)
            cases += r.cases
    cases = dedupe(cases)
    res = chk.replay("wire-c03", cases, "docs", workers=W, timeout="20s")
    chk.absorb("wire-c03", cases, res, crash_sig=panic_sig("C03"))
    chk.extra_cov["slots"] = len({(c["kind"], c["card"], c["pos"]) for c in cases})
    chk.extra_cov["documents"] = {m: sum(1 for c in cases if c["mode"] == m) for m in ("spell", "fault", "query")}
    chk.extra_cov["fault_classes"] = sorted({":".join(c["fault"].split(":")[:1]) for c in cases if c.get("fault")})
    events = collect_events(res, "dec", limit=2500 if quick else 12000, rng=rng)
    trace_or_error(chk, events, "trace", "J5Wire_trace.cfg", 0)


# ---------------------------------------------------------------- C06

def run_c06(chk):
    quick = chk.tier == "quick"
    rng = random.Random(chk.seed)
    cases = []
    # token-level totality model: deadlock checking ON (a (state, token) pair without an action is a model bug found here)
    r = chk.tlc("J5WireTokMC.tla", "J5WireTok_quick.cfg" if quick else "J5WireTok_thorough.cfg", "tok", workers=W, timeout=2400)
    check_model(chk, r)
    cases += r.cases
    r = chk.tlc("J5WireTokMC.tla", "J5WireTok_deep.cfg", "toksim", workers=1 if quick else W, simulate=1500 if quick else 20000,
                depth=40, seed=chk.seed, timeout=1200)
    check_model(chk, r)
    cases += r.cases
    cases = dedupe(cases)
    r = chk.tlc("J5WireTokMC.tla", "J5WireTok_query.cfg", "query", workers=W, timeout=900)
    check_model(chk, r)
    qcases = r.cases
    res = chk.replay("wire-tok", cases, "tok", workers=W, timeout="20s")
    chk.absorb("wire-tok", cases, res, crash_sig=tok_sig)
    resq = chk.replay("wire-tok", qcases, "query", workers=W, timeout="20s")
    chk.absorb("wire-tok", qcases, resq, crash_sig=tok_sig)
    # the fault documents of C03 are also wrong-shape inputs: totality only
    r = chk.tlc("J5WireMC.tla", "J5Wire_fault.cfg", "fault", workers=W, timeout=1200)
    check_model(chk, r)
    fcases = r.cases
    if quick:
        rng.shuffle(fcases)
        fcases = fcases[:6000]
    resf = chk.replay("wire-c06doc", fcases, "faultdocs", workers=W, timeout="20s")
    chk.absorb("wire-c06doc", fcases, resf, crash_sig=panic_sig("C06"))
    # kind sweep: every scalar kind x {singular, optional, array, map} x every wrong-shaped value (the token model's universal
    # type only has string / enum / object / oneof collections), incl. huge exponents and long digit strings for numeric kinds
    values = ["null", "true", "1", "-1", "1.5", "1e400", "1e50000000", "-1e-50000000", "9" * 400,
              # exponents at the edges of 32 bits (scale arithmetic of decimals and floats)
              "1e-2147483648", "1.5e-2147483647", "1e-2147483647", "1e2147483647", "1e-2147483649", "1e2147483648", '"1e-2147483648"', '"1e2147483647"',
              "1e-6176", "1e-6177", "1e6144", "1e6145", '"x"', '""', '"1e50000000"', '"' + "9" * 400 + '"',
              "[]", "{}", "[null]", '{"k":null}', "[[]]", "[{}]", '{"k":[]}', '{"k":{}}', '[1,null]', '{"!type":"a"}', '{"!type":null}',
              '[true]', '["x"]', '{"k":true}', '{"k":"x"}', '{"k":1.5}', '[1.5]', '"2024-02-30"', '"0000-00-00"', '"-1"']
    sweep = []
    for k in range(19):
        for card in "samo":
            for v in values:
                sweep.append({"kind": k, "card": card, "value": v, "query": False})
        for v in ["", " ", "true", "1e50000000", "1e-2147483648", "9" * 400, "{", "[", "{}", "null", "x", "%"]:
            for card in "sa":
                sweep.append({"kind": k, "card": card, "value": v, "query": True})
    ress = chk.replay("wire-sweep", sweep, "sweep", workers=W, timeout="20s")
    chk.absorb("wire-sweep", sweep, ress, crash_sig=lambda c, e, sig: sig + "|kind=%d|card=%s|%s" % (c["kind"], c["card"], "query" if c["query"] else "json"))
    chk.extra_cov["kind_sweep_cases"] = len(sweep)
    # residual: plain seeded random testing below the model's alphabet (random / mutated bytes, deep nesting, huge numbers)
    nrand = 20000 if quick else 400000
    per = 500
    rcases = [{"mode": "rand", "seed": chk.seed * 1000003 + i, "n": per} for i in range(nrand // per)]
    # measured: decoding time grows quadratically with nesting depth (16 000 levels = 80 KB take ~7 s), so depths are kept
    # where a call still returns within the budget; the scaling itself is recorded below, not judged
    rcases += [{"mode": "deep", "depth": d, "shape": s} for d in ([100, 1000, 4000] + ([] if quick else [16000]))
               for s in ("array", "object-rec", "oneof-rec", "map-rec", "any", "query")]
    # ... and far beyond any sensible document: a few megabytes of opening brackets. One stack frame set per level would
    # need more than the 1 GB a goroutine stack may grow to, which is fatal for the process (not a recoverable panic)
    rcases += [{"mode": "deep", "depth": 400000, "shape": s} for s in ("array", "object-rec", "oneof-rec", "map-rec", "any", "query")]
    rcases += [{"mode": "huge", "digits": d} for d in (30, 400, 5000, 200000)]
    # every message type of the ProtoShapes descriptor sets as a decoding target (recursive types in every form, flatten
    # cycles the target is or is not part of, name clashes, every annotation): the call returns
    scases = []
    for nm, cfg in (("focus_opt", "ProtoShapes_focus_opt.cfg"), ("focus_rec3", "ProtoShapes_focus_rec3.cfg"), ("graph2c", "ProtoShapes_graph2c.cfg")):
        rs_ = chk.tlc("ProtoShapesMC.tla", cfg, "shapes_" + nm, workers=W, timeout=1200)
        scases += rs_.cases
        rs_.cases = []
    if quick and len(scases) > 6000:
        random.Random(chk.seed).shuffle(scases)
        scases = scases[:6000]
    ress = chk.replay("shapes-c06", scases, "shapes", workers=W, timeout="30s")
    chk.absorb("shapes-c06", scases, ress, crash_sig=lambda c, e, sig: sig + "|target-types")
    chk.extra_cov["target_type_sets"] = len(scases)
    resr = chk.replay("wire-rand", rcases, "rand", workers=W, timeout="120s")
    chk.absorb("wire-rand", rcases, resr, crash_sig=rand_sig)
    chk.extra_cov["random_inputs"] = sum(((e.get("out") or {}).get("obs") or {}).get("inputs", 0) for e in resr if isinstance((e.get("out") or {}).get("obs"), dict))
    chk.extra_cov["deep_nesting_max_ms"] = {"%s@%d" % (c["shape"], c["depth"]): ((e.get("out") or {}).get("obs") or {}).get("max_ms")
                                            for c, e in zip(rcases, resr) if c["mode"] == "deep" and isinstance((e.get("out") or {}).get("obs"), dict)}
    chk.extra_cov["token_sequences"] = len(cases)
    chk.extra_cov["query_cases"] = len(qcases)
    chk.exhaustive = True
    # direction T: outcome log against the totality specification
    events = collect_events(res, "tok", limit=3000 if quick else 15000, rng=rng)
    events += collect_events(resr, "out", limit=3000 if quick else 15000, rng=rng)
    trace_or_error(chk, events, "trace", "J5WireTok_trace.cfg", 0, "J5WireTokTraceMC.tla")


def tok_sig(case, env, sig):
    return "%s|%s|shape=%s" % (site_of(env, "C06", sig), case.get("target", ""), case.get("cls", ""))


def rand_sig(case, env, sig):
    return "%s|%s|%s" % (site_of(env, "C06", sig), case.get("mode", ""), case.get("shape", case.get("digits", "")))


RULES = {
    "C01": ("cases are terminal states of spec/J5Wire.tla (Mode=val): every admissible slot (18 kinds x {singular, optional, array, map} x "
            "10 positions) x every boundary value atom (unset included; two-element arrays/maps in the thorough tier and in the simulation slice); "
            "each replayed under two schema sources; non-trivial = the message has at least one member set; distinct by (slot, value)"),
    "C08": ("as C01 plus the well-formedness-only atoms (NaN, +Inf, -Inf, years 0 and 10000); real encoder output is re-read by a strict RFC 8259 "
            "tokenizer and compared with Enc(schema, v) on representation class, documented lexeme format, members present, framing and JSON names; "
            "member order is projected away; non-trivial = at least one member set"),
    "C03": ("documents are terminal states of spec/J5Wire.tla: Mode=spell (canonical encoding respelled: quoted/bare numbers, base64 std/url "
            "padded/unpadded, enum prefix, RFC3339 offsets, member reordering, explicit nulls, whitespace), Mode=fault (exactly one fault of one "
            "listed class at the focus element, the focus field, or a key / oneof fault in an object or oneof on the path), Mode=query (scalars as "
            "URL query parameters); every case counts as non-trivial (accept/reject and the stored value are both compared)"),
    "C06": ("token sequences chosen on demand by the decoder's token-level model spec/J5WireTok.tla (every JSON token class in every decoder control "
            "state, truncation at every boundary, malformed-token atoms), url.Values by the query mode of the same spec, the C03 fault documents, and a "
            "residual seeded random-bytes / deep-nesting / huge-number driver; non-trivial = the decoder consumed at least one token beyond the root delimiter"),
}


def run(chk):
    load_wire_known(chk)
    chk.rule = RULES[chk.prop]
    chk.assumptions += [
        "scalar values are named atoms at the kind's boundaries (harness/wire_types.go holds the literal atom -> protobuf value / lexeme table); "
        "a defect that appears only at a non-boundary value is outside the explored set",
        "the concretiser (schema tree -> j5s text / FileDescriptorProto, value tree -> dynamicpb message, JSON tree -> bytes) and the strict tokenizer are trusted",
        "bounded: one focus field per schema, nesting depth <= 4, arrays/maps of <= 2 elements",
    ]
    if chk.prop in ("C01", "C08"):
        run_val(chk)
    elif chk.prop == "C03":
        run_c03(chk)
    elif chk.prop == "C06":
        chk.assumptions.append("the random-bytes / deep-nesting part is plain seeded random testing (no coverage guidance); TLC only validates its outcome log")
        run_c06(chk)
    else:
        raise vcheck.MachineryError("p_wire does not serve " + chk.prop)


def replay(prop, path):
    import check
    rec = json.load(open(path))
    chk = vcheck.Check(prop, "replay")
    res = chk.replay(rec["driver"], [rec["case"]], "replay", workers=1, timeout="120s")
    chk.known = []
    sig = {"wire-tok": tok_sig, "wire-rand": rand_sig}.get(rec["driver"], panic_sig(prop))
    chk.absorb(rec["driver"], [rec["case"]], res, crash_sig=sig)
    print(json.dumps(res[0], indent=1)[:6000])
    return chk.finish()


def selftest(prop):
    """V4: the binding must reject corrupted recordings and flag a property-breaking observation."""
    chk = vcheck.Check(prop, "selftest")
    ok = True
    if prop in ("C01", "C08", "C03"):
        r = chk.tlc("J5WireMC.tla", "J5Wire_val.cfg", "val", workers=W, timeout=900)
        cases = [c for c in r.cases if c["kind"] in ("int64", "bytes", "oneof") and not c["wfonly"]][:150]
        res = chk.replay("wire-all", cases, "st", workers=W)
        events = collect_events(res, "rt")
        v, _ = validate_trace(chk, events, "st_ok", "J5Wire_trace.cfg")
        if v != "ok":
            log("SELFTEST-FAIL %s: pristine trace not accepted (%s)" % (prop, v))
            ok = False
        # corrupt a decoded value: the round-trip law must fail
        bad = json.loads(json.dumps(events))
        tgt = next(e for e in bad if e["decok"] and e["back"].get("m"))
        tgt["back"]["m"] = tgt["back"]["m"][:-1]
        v, _ = validate_trace(chk, bad, "st_law", "J5Wire_trace.cfg")
        if v != "law":
            log("SELFTEST-FAIL %s: corrupted round trip not rejected (%s)" % (prop, v))
            ok = False
        # corrupt the recorded document (a quoted 64-bit integer becomes bare): conformance drift must be counted
        bad = json.loads(json.dumps(events))
        n = 0
        for e in bad:
            s = json.dumps(e["doc"])
            if '"kind": "int64"' in s and '"j": "str"' in s and n == 0:
                e["doc"] = json.loads(s.replace('"j": "str", "kind": "int64"', '"j": "num", "kind": "int64"').replace('"f": "quoted"', '"f": "bare"'))
                n += 1
        before = chk.drift.get("%s|trace-nonconforming" % prop, 0)
        v, _ = validate_trace(chk, bad, "st_drift", "J5Wire_trace.cfg")
        if n and (v != "ok" or chk.drift.get("%s|trace-nonconforming" % prop, 0) <= before):
            log("SELFTEST-FAIL %s: corrupted document not counted as non-conformance (%s)" % (prop, v))
            ok = False
        # a stub observation that breaks the property must be flagged by the driver's predicate
        stub = dict(next(c for c in r.cases if c["pos"] == "top" and c["kind"] == "int64" and c["vl"] == "max"))
        stub["stub"] = "break"
        out = chk.replay("wire-all", [stub], "st_stub", workers=1)[0].get("out") or {}
        if not out.get("viol"):
            log("SELFTEST-FAIL %s: broken stub not flagged" % prop)
            ok = False
    else:
        r = chk.tlc("J5WireTokMC.tla", "J5WireTok_quick.cfg", "tok", workers=W, timeout=900)
        cases = r.cases[:300]
        res = chk.replay("wire-tok", cases, "st", workers=W)
        events = collect_events(res, "tok")
        v, _ = validate_trace(chk, events, "st_ok", "J5WireTok_trace.cfg", "J5WireTokTraceMC.tla")
        if v != "ok":
            log("SELFTEST-FAIL C06: pristine outcome log not accepted (%s)" % v)
            ok = False
        bad = json.loads(json.dumps(events))
        bad[3]["outcome"] = "panic"
        v, _ = validate_trace(chk, bad, "st_law", "J5WireTok_trace.cfg", "J5WireTokTraceMC.tla")
        if v != "law":
            log("SELFTEST-FAIL C06: a logged panic was not rejected (%s)" % v)
            ok = False
    log("SELFTEST %s %s" % ("ok" if ok else "FAILED", prop))
    return 0 if ok else 2
