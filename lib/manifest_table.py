HOOK_COMMITS = ["0367723"]

_BCL_NOTE = ("bounded exhaustive within the stated lengths; token atoms are concretised by a small trusted table whose result is re-lexed "
             "and compared; random bytes / fixture mutations / description re-flow are plain randomized testing outside the models")
CHECKS = {
    "C09": {
        "text": "TLC explores spec/BclFmt.tla: the token-level parser machine run twice (parse, render as fmt.go does, re-parse) over every "
                "pruned token sequence of <= 4 (thorough 5) tokens from 28 token atoms incl. multi-line and escape-bearing literal classes, "
                "plus simulation; model laws OutputParses/MeaningPreserved/Idempotent are checked by TLC; every case is replayed on the real "
                "parser.Fmt/ParseFile and the law (output parses, position-free trees and comments equal, Fmt(Fmt x)=Fmt x) is evaluated on the "
                "real results; recorded parse outcomes are validated by TLC against BclParserTrace",
        "design_ref": "DESIGN.md 5.2, 5.3, 6/C09", "note": _BCL_NOTE,
        "technique": "TLA+ two-pass parser/formatter machine + TLC (exhaustive short token sequences, simulation), replay into Go, TLC trace validation",
    },
    "C11": {
        "text": "TLC explores spec/BclLexer.tla (rune-level lexer machine, all inputs <= 3 symbols over 29 symbols and <= 4 (thorough 5-6) over "
                "14 lexer-equivalence classes) and spec/BclParser.tla (token-level Walker + fragmentsToFile machine, all sequences <= 3 (thorough 4) "
                "tokens over 21 types, pruned <= 5 (thorough 6), simulation), both fail-fast values, with model properties Progress, PosInBounds, "
                "TreeXorDiagnostics, DiagPosValid, NodePosValid; every case is replayed on parser.ParseFile and the law (tree xor diagnostics, "
                "no panic, termination, positions inside the input with start<=end, collect-all's first diagnostic = fail-fast's, HumanString) "
                "is evaluated on the real results; real token streams / parse outcomes are validated by TLC against BclLexerTrace/BclParserTrace",
        "design_ref": "DESIGN.md 5.1, 5.2, 6/C11", "note": _BCL_NOTE,
        "technique": "TLA+ lexer and parser state machines with on-demand input + TLC, replay into Go, TLC trace validation",
    },
    "C19": {
        "text": "spec/BclFmt.tla derives the editor edit list (fragment ranges, merge of fragments sharing a line, leading/gap edits) for every "
                "explored token sequence and TLC checks EditsWellFormed on the model; every case is replayed on the real parser.FmtDiffs/Fmt "
                "(no failure, ascending, disjoint, start<=end<=lines, applied text = Fmt up to trailing blank lines); the recorded edit lists are "
                "fed to the TLA+ editor machine BclEditTrace which applies them step by step checking the range invariants and the final text",
        "design_ref": "DESIGN.md 5.3, 6/C19", "note": _BCL_NOTE,
        "technique": "TLA+ formatter/edit-list model + TLC, replay into Go, TLA+ editor machine validating recorded edits",
    },
    "C10": {
        "text": "TLC checks spec/SchemaCache.tla (one action per critical section of SchemaCache.Schema/refTo/referencePackage and the "
                "recursive build) exhaustively for 2 (thorough: 3) goroutines over shared, recursive and cross-package type graphs: mutual "
                "exclusion, no conflicting map access, every call returns what it returns alone, no placeholder visible outside the lock, "
                "termination. The unguarded variant of the same spec yields one shortest schedule per misbehaving state; each is forced "
                "step by step on the real code through the guarded verifAt gates and call results are compared with a private codec. "
                "Free-running stress on shared/global codecs under the Go race detector; hook traces validated by TLC (SchemaCacheTrace)",
        "design_ref": "DESIGN.md 5.4, 6/C10, 7",
        "note": "data races are observed by the Go race detector / crashes, not by TLC; forced schedules cover the hook granularity; "
                "stress is sampling; type graphs are small dynamic proto3 messages",
        "technique": "TLA+ spec + TLC exhaustive interleavings, TLC-derived attack schedules replayed with blocking hooks, -race stress, TLC trace validation",
    },
    "C20": {
        "text": "TLC explores spec/Id62.tla (digit-by-digit base conversion machine) over all boundary identifiers, all parser strings "
                "up to length 4 over 14 character classes, boundary strings around 2^128 and simulated random identifiers/strings; "
                "every terminal state is replayed on lib/id62 and the law (22 chars, pattern, Parse(String(x))=x, reject >= 2^128, "
                "no panic, pure hashing) is evaluated on the real results; recorded calls are validated by TLC against Id62Trace.tla",
        "design_ref": "DESIGN.md 5.11, 6/C20",
        "note": "bounded: 2^128 identifiers are sampled (boundary set exhaustive + uniform simulation); digit alphabet table trusted for drift only",
        "technique": "TLA+ spec + TLC (exhaustive boundary sets and simulation), case replay into Go, TLC trace validation",
    },
}

_NY = "check not built yet in this round; planned per DESIGN.md section 6 (TLA+ model + replay + trace validation)"
PENDING = {("C%02d" % i): _NY for i in range(1, 21)}
