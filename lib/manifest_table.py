HOOK_COMMITS = []

CHECKS = {
    "C20": {
        "text": "TLC explores spec/Id62.tla (digit-by-digit base conversion machine) over all boundary identifiers, all parser strings "
                "up to length 4 over 14 character classes, boundary strings around 2^128 and simulated random identifiers/strings; "
                "every terminal state is replayed on lib/id62 and the law (22 chars, pattern, Parse(String(x))=x, reject >= 2^128, "
                "no panic, pure hashing) is evaluated on the real results; recorded calls are validated by TLC against Id62Trace.tla",
        "design_ref": "DESIGN.md 5.11, 6/C20",
        "note": "bounded: 2^128 identifiers are sampled (boundary set exhaustive + uniform simulation); digit alphabet table trusted for drift only",
        "technique": "TLA+ spec + TLC (exhaustive boundary sets and simulation), case replay into Go, TLC trace validation",
    },
}

_NY = "check not built yet in this round; planned per DESIGN.md section 6 (TLA+ model + replay + trace validation)"
PENDING = {("C%02d" % i): _NY for i in range(1, 21)}
