HOOK_COMMITS = ["0367723", "b96083b"]

_BCL_NOTE = ("bounded exhaustive within the stated lengths; token atoms are concretised by a small trusted table whose result is re-lexed "
             "and compared; random bytes / fixture mutations / description re-flow are plain randomized testing outside the models")
CHECKS = {
    "C09": {
        "text": "TLC explores spec/BclFmt.tla: the token-level parser machine run twice (parse, render as fmt.go does, re-parse) over every "
                "pruned token sequence of <= 4 (thorough 5) tokens from 28 token atoms incl. multi-line and escape-bearing literal classes, "
                "plus simulation; model laws OutputParses/MeaningPreserved/Idempotent are checked by TLC; every case is replayed on the real "
                "parser.Fmt/ParseFile and the law (output parses, position-free trees and comments equal, Fmt(Fmt x)=Fmt x) is evaluated on the "
                "real results; recorded parse outcomes are validated by TLC against BclParserTrace",
        "design_ref": "DESIGN.md 5.2, 5.3, 6/C09", "note": _BCL_NOTE,
        "technique": "TLA+ two-pass parser/formatter machine + TLC (exhaustive short token sequences, simulation), replay into Go, TLC trace validation",
    },
    "C11": {
        "text": "TLC explores spec/BclLexer.tla (rune-level lexer machine, all inputs <= 3 symbols over 29 symbols and <= 4 (thorough 5-6) over "
                "14 lexer-equivalence classes) and spec/BclParser.tla (token-level Walker + fragmentsToFile machine, all sequences <= 3 (thorough 4) "
                "tokens over 21 types, pruned <= 5 (thorough 6), simulation), both fail-fast values, with model properties Progress, PosInBounds, "
                "TreeXorDiagnostics, DiagPosValid, NodePosValid; every case is replayed on parser.ParseFile and the law (tree xor diagnostics, "
                "no panic, termination, positions inside the input with start<=end, collect-all's first diagnostic = fail-fast's, HumanString) "
                "is evaluated on the real results; real token streams / parse outcomes are validated by TLC against BclLexerTrace/BclParserTrace",
        "design_ref": "DESIGN.md 5.1, 5.2, 6/C11", "note": _BCL_NOTE,
        "technique": "TLA+ lexer and parser state machines with on-demand input + TLC, replay into Go, TLC trace validation",
    },
    "C19": {
        "text": "spec/BclFmt.tla derives the editor edit list (fragment ranges, merge of fragments sharing a line, leading/gap edits) for every "
                "explored token sequence and TLC checks EditsWellFormed on the model; every case is replayed on the real parser.FmtDiffs/Fmt "
                "(no failure, ascending, disjoint, start<=end<=lines, applied text = Fmt up to trailing blank lines); the recorded edit lists are "
                "fed to the TLA+ editor machine BclEditTrace which applies them step by step checking the range invariants and the final text",
        "design_ref": "DESIGN.md 5.3, 6/C19", "note": _BCL_NOTE,
        "technique": "TLA+ formatter/edit-list model + TLC, replay into Go, TLA+ editor machine validating recorded edits",
    },
    "C10": {
        "text": "TLC checks spec/SchemaCache.tla (one action per critical section of SchemaCache.Schema/refTo/referencePackage and the "
                "recursive build) exhaustively for 2 (thorough: 3) goroutines over shared, recursive and cross-package type graphs: mutual "
                "exclusion, no conflicting map access, every call returns what it returns alone, no placeholder visible outside the lock, "
                "termination. The unguarded variant of the same spec yields one shortest schedule per misbehaving state; each is forced "
                "step by step on the real code through the guarded verifAt gates and call results are compared with a private codec. "
                "Free-running stress on shared/global codecs under the Go race detector; hook traces validated by TLC (SchemaCacheTrace)",
        "design_ref": "DESIGN.md 5.4, 6/C10, 7",
        "note": "data races are observed by the Go race detector / crashes, not by TLC; forced schedules cover the hook granularity; "
                "stress is sampling; type graphs are small dynamic proto3 messages",
        "technique": "TLA+ spec + TLC exhaustive interleavings, TLC-derived attack schedules replayed with blocking hooks, -race stress, TLC trace validation",
    },
    "C20": {
        "text": "TLC explores spec/Id62.tla (digit-by-digit base conversion machine) over all boundary identifiers, all parser strings "
                "up to length 4 over 14 character classes, boundary strings around 2^128 and simulated random identifiers/strings; "
                "every terminal state is replayed on lib/id62 and the law (22 chars, pattern, Parse(String(x))=x, reject >= 2^128, "
                "no panic, pure hashing) is evaluated on the real results; recorded calls are validated by TLC against Id62Trace.tla",
        "design_ref": "DESIGN.md 5.11, 6/C20",
        "note": "bounded: 2^128 identifiers are sampled (boundary set exhaustive + uniform simulation); digit alphabet table trusted for drift only",
        "technique": "TLA+ spec + TLC (exhaustive boundary sets and simulation), case replay into Go, TLC trace validation",
    },
}

_WIRE_NOTE = ("bounded: value atoms at boundaries per kind, single-focus schemas (one field of interest per type, nested / flattened / oneof / "
              "array / map positions); literal tables in harness/wire_types.go are trusted; random bytes for C06 are plain random testing")
CHECKS.update({
    "C01": {
        "text": "TLC explores spec/J5Wire.tla (PickSlot x PickValue over 17 scalar kinds x cardinalities x positions incl. oneof arms, exposed "
                "oneofs, flattened objects, maps, both Any flavours) with model properties RoundTrip and NoKeyCollision; every case is realised twice "
                "(compiled j5s and raw descriptors), encoded and decoded by the real codec and compared under the stated equivalence; recorded "
                "(value, document, decoded value) triples are validated by TLC against J5WireTrace (LawRoundTrip)",
        "design_ref": "DESIGN.md 5.6, 6/C01", "note": _WIRE_NOTE,
        "technique": "TLA+ wire-format spec + TLC (exhaustive single-focus space, simulation), replay into Go codec, TLC trace validation",
    },
    "C03": {
        "text": "J5Wire.tla's PickSpelling and InjectFault actions enumerate every documented alternate spelling and exactly one fault of each "
                "listed class at each position; the model's Dec gives the demanded verdict (SpellingInvariant, FaultRejected, faults disjoint from "
                "spellings); the real JSONToProto/QueryToProto must accept every spelling with the denoted value and reject every fault",
        "design_ref": "DESIGN.md 5.6, 6/C03", "note": _WIRE_NOTE,
        "technique": "TLA+ wire-format spec with spelling/fault actions + TLC, contract replay into Go codec, TLC trace validation",
    },
    "C06": {
        "text": "spec/J5WireTok.tla is a token-level pushdown model of the decoder with an action for every (control state, JSON token class) pair, "
                "checked total by TLC (deadlock check on, ENABLED-based Total invariant); all token sequences <= 6 (thorough 8) tokens, url.Values "
                "shapes, fault documents and simulated long sequences are replayed in isolated workers with a time budget; random bytes as residual",
        "design_ref": "DESIGN.md 6/C06, 9", "note": _WIRE_NOTE,
        "technique": "TLA+ token-level decoder model checked total by TLC, case replay with process isolation and time budget, TLC outcome-log validation",
    },
    "C08": {
        "text": "J5Wire.tla's Enc gives the documented representation class of every value (bare vs quoted, padded std base64, RFC3339 Z, "
                "zero-padded dates, short enum names, !type framing, flatten inlining, omitted unset members, JSON names); real encoder output is "
                "re-read by a strict tokenizer and must equal the prediction on those attributes (member order projected away)",
        "design_ref": "DESIGN.md 5.6, 6/C08", "note": _WIRE_NOTE,
        "technique": "TLA+ wire-format spec (Enc) + TLC, contract replay with a strict JSON tokenizer, TLC trace validation",
    },
    "C04": {
        "text": "spec/J5Rules.tla holds the rule/annotation catalogue of schema.proto and the writer/reader pair as operators with the model "
                "invariant Read(Write(f)) = f; every catalogue entry with every admissible value is printed as a single-field j5s object, compiled, "
                "reflected three ways (SchemaCache, SchemaSet, printed .proto text) and compared with the declared schema on the listed attributes",
        "design_ref": "DESIGN.md 5.9, 6/C04", "note": "one ruled field per object; pairs of rules in thorough; literal concretisation trusted",
        "technique": "TLA+ rule catalogue with writer/reader operators + TLC, contract replay (compile, reflect, re-reflect from text), TLC trace validation",
    },
    "C12": {
        "text": "spec/J5Validate.tla builds (field kind, rule combination, candidate value) states with candidates around every induced bound and "
                "the operator Allows; TLC checks every rule has an accepted and a rejected candidate; each declaration is compiled and "
                "protovalidate's verdict on a dynamic message must equal Allows; recorded verdicts are re-evaluated by TLC (J5ValidateTrace)",
        "design_ref": "DESIGN.md 5.7, 6/C12", "note": "bounds are small integers / named atoms; maps not generated; one ruled field per object",
        "technique": "TLA+ rule-semantics spec (Allows) + TLC, contract replay through protovalidate, TLC trace validation",
    },
    "C17": {
        "text": "spec/J5Entity.tla builds entity declarations by actions and defines EntityExpand / EntityConsistent (names from the entity via "
                "casing tables, six schemas, query service, commands, publish and upsert topics, psm annotations, key flattening, path parameters, "
                "status numbering); each declaration is compiled and the real descriptors and client StateEntity are projected and compared; "
                "recorded expansions are validated by TLC against J5EntityTrace",
        "design_ref": "DESIGN.md 5.5, 6/C17", "note": "focus-exhaustive within <= 3 keys / 2 data / 3 statuses / 3 events / 2 commands / 2 summaries, simulation beyond",
        "technique": "TLA+ entity-expansion spec + TLC, contract replay through the real compiler and client API, TLC trace validation",
    },
    "C07": {
        "text": "spec/J5Lang.tla generates every single-construct file of the documented field language (8 containers x 23 kinds x cardinality x "
                "presence forms x rule sets) in isolation, plus one of 17 semantic faults; GeneratorClosed / FaultInvalid are checked by TLC; each "
                "file (and token / line mutations, random texts) is compiled and linted by the real PackageSet: valid => accepted, any error => "
                "position inside the file, no panic / hang; J5LangTrace re-evaluates Valid on recorded outcomes and cross-checks the tallies",
        "design_ref": "DESIGN.md 6/C07, Appendix A", "note": "'documented language' is the model's Valid predicate (README, schema.proto); random bytes are plain random testing",
        "technique": "TLA+ language-catalogue spec + TLC, replay through the real compiler with process isolation, TLC trace tally validation",
    },
})

_PIPE_NOTE = ("program space is generated by the J5Schema / J5Lang / J5Entity models plus the repository's own sources; stages are real library calls; "
              "descriptor equivalence is normalised as stated in the evidence assumptions")
CHECKS.update({
    "C05": {
        "text": "spec/Pipeline.tla orders the stages Compile, Print, Reparse, Reprint as actions with outcomes; for every program of the generated "
                "space and every hand-written proto tree the real PrintFile text is parsed and linked with protocompile, the descriptor is "
                "compared with the original on the listed attributes (incl. every option / extension value and leading comments) and printed "
                "again; recorded stage outcomes are replayed through the stage machine by TLC (PipelineTrace) and the C05 tally cross-checked",
        "design_ref": "DESIGN.md 5.9, 6/C05", "note": _PIPE_NOTE,
        "technique": "TLA+ stage machine + TLC, replay of generated programs through print / protocompile re-parse / re-print, TLC trace validation",
    },
    "C15": {
        "text": "for every program: image -> structure.APIFromImage -> j5schema.PackageSetFromSourceAPI (all refs must link) -> ToJ5Root of every "
                "schema must be proto.Equal to the exported form, for the full image and for every partial image that names one local package only "
                "(the others become indirect packages); reference graphs over root / service / topic packages come from PackageExport.tla "
                "(TLC: Closed, ParentListed, OrderIndependent); stage outcomes validated by TLC against the Pipeline stage machine",
        "design_ref": "DESIGN.md 5.9, 6/C15", "note": _PIPE_NOTE,
        "technique": "TLA+ stage machine and package-closure model (PackageExport) + TLC, export / import / re-export replay of TLC-generated reference graphs and programs with structural diff, TLC trace validation",
    },
    "C16": {
        "text": "for every program (services with every verb, bodiless responses, topics, entities, self- and mutually-recursive and flattened "
                "types, every field kind in request / response / path position): image, source API, client API, J5 JSON rendering and OpenAPI must "
                "all succeed in an isolated worker with a time budget, and the client API must list exactly the declared methods with verb, path, "
                "bound path parameters, the verb-dictated path/query/body split and all reachable schemas; outcomes validated by TLC (PipelineTrace)",
        "design_ref": "DESIGN.md 5.9, 6/C16", "note": _PIPE_NOTE,
        "technique": "TLA+ stage machine + TLC, replay through the real tool-chain with process isolation, contract comparison, TLC trace validation",
    },
})

CHECKS.update({
    "C02": {
        "text": "spec/J5Schema.tla builds j5s bundles by Add* actions (objects, oneofs, enums, nested / inline types, every field type and "
                "qualifier form, imports, services, topics) and spec/J5Compile.tla defines Contract(bundle) with casing functions computed "
                "in the spec; TLC checks NumbersContiguous / NamesUniquePerScope / ImportsSufficient; every program is printed, compiled by the "
                "real PackageSet and its descriptors projected and compared with the predicted contract on the attributes the statement lists",
        "design_ref": "DESIGN.md 5.5, 6/C02", "note": "focus-exhaustive over 419 constructs on 6 base bundles, <= 3 steps; deeper programs by simulation; the AST printer is trusted (checked by drift 0)",
        "technique": "TLA+ program-building spec + Contract operator + TLC, contract replay through the real compiler, TLC trace validation",
    },
    "C13": {
        "text": "AppendStable is an action property of J5Compile.tla over every Add*-at-end step (checked by TLC on the whole reachable graph); "
                "every model edge and history is replayed as real compiles and the restriction of the new output to the old elements compared",
        "design_ref": "DESIGN.md 5.5, 6/C13", "note": "append edits of the kinds the statement lists; others are drift",
        "technique": "TLA+ action property + TLC, pairwise replay of compiles along model histories, TLC trace validation",
    },
    "C14": {
        "text": "spec/CompileOrder.tla models PackageSet as a history-independent cache: all permutations of file / package listings, all call "
                "orders, fresh vs reused sets (TLC); each history is executed repeatedly, in several processes, and every FileDescriptorProto "
                "(deterministic marshal) and printed text must be byte-identical; digests validated as a trace of CompileOrder",
        "design_ref": "DESIGN.md 5.8, 6/C14", "note": "bundles of <= 3 packages x 3 files; hash-seed variation by separate processes",
        "technique": "TLA+ history-independence spec + TLC (all permutations / call orders), replay of histories with byte comparison, TLC trace validation",
    },
    "C18": {
        "text": "spec/ProtoShapes.tla builds raw proto3 descriptor sets (all scalar kinds, labels, oneofs, maps, WKTs, every digraph of <= 3 "
                "(thorough 4) messages, consistent and inconsistent j5 / validate / list annotations) and contains the reflection skeleton as a "
                "state machine with termination and switch-totality invariants; every set is reflected through the three entry points in an "
                "isolated worker, proto paths and name uniqueness checked, empty and populated messages encoded and decoded",
        "design_ref": "DESIGN.md 5.10, 6/C18", "note": "single-focus exhaustive, pairs and simulation in thorough; Builds/Errors predictions are drift only",
        "technique": "TLA+ descriptor-shape generator + reflection skeleton + TLC, replay with process isolation, TLC trace validation",
    },
})

_NY = "check not built yet in this round; planned per DESIGN.md section 6 (TLA+ model + replay + trace validation)"
PENDING = {("C%02d" % i): _NY for i in range(1, 21)}
