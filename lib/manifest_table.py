HOOK_COMMITS = ["0367723"]

CHECKS = {
    "C10": {
        "text": "TLC checks spec/SchemaCache.tla (one action per critical section of SchemaCache.Schema/refTo/referencePackage and the "
                "recursive build) exhaustively for 2 (thorough: 3) goroutines over shared, recursive and cross-package type graphs: mutual "
                "exclusion, no conflicting map access, every call returns what it returns alone, no placeholder visible outside the lock, "
                "termination. The unguarded variant of the same spec yields one shortest schedule per misbehaving state; each is forced "
                "step by step on the real code through the guarded verifAt gates and call results are compared with a private codec. "
                "Free-running stress on shared/global codecs under the Go race detector; hook traces validated by TLC (SchemaCacheTrace)",
        "design_ref": "DESIGN.md 5.4, 6/C10, 7",
        "note": "data races are observed by the Go race detector / crashes, not by TLC; forced schedules cover the hook granularity; "
                "stress is sampling; type graphs are small dynamic proto3 messages",
        "technique": "TLA+ spec + TLC exhaustive interleavings, TLC-derived attack schedules replayed with blocking hooks, -race stress, TLC trace validation",
    },
    "C20": {
        "text": "TLC explores spec/Id62.tla (digit-by-digit base conversion machine) over all boundary identifiers, all parser strings "
                "up to length 4 over 14 character classes, boundary strings around 2^128 and simulated random identifiers/strings; "
                "every terminal state is replayed on lib/id62 and the law (22 chars, pattern, Parse(String(x))=x, reject >= 2^128, "
                "no panic, pure hashing) is evaluated on the real results; recorded calls are validated by TLC against Id62Trace.tla",
        "design_ref": "DESIGN.md 5.11, 6/C20",
        "note": "bounded: 2^128 identifiers are sampled (boundary set exhaustive + uniform simulation); digit alphabet table trusted for drift only",
        "technique": "TLA+ spec + TLC (exhaustive boundary sets and simulation), case replay into Go, TLC trace validation",
    },
}

_NY = "check not built yet in this round; planned per DESIGN.md section 6 (TLA+ model + replay + trace validation)"
PENDING = {("C%02d" % i): _NY for i in range(1, 21)}
