"""BCL text family: C11 (parser total / positions), C09 (formatter), C19 (editor edits).
Specs: BclLexer.tla, BclParser.tla, BclFmt.tla (+ BclLexerTrace, BclParserTrace, BclEditTrace)."""
import glob
import json
import os
import random
import re

import vcheck
from vcheck import log

TOK_RE = re.compile(r'\s+|\w+|"(?:\\.|[^"\\\n])*"|//[^\n]*|/\*.*?\*/|.', re.S)


def fixture_texts():
    paths = sorted(set(glob.glob(os.path.join(vcheck.REPO, "**", "*.j5s"), recursive=True) +
                       glob.glob(os.path.join(vcheck.REPO, "**", "*.bcl"), recursive=True)))
    out = []
    for p in paths:
        try:
            t = open(p, encoding="utf-8").read()
        except Exception:
            continue
        if 0 < len(t) < 40000:
            out.append((os.path.relpath(p, vcheck.REPO), t))
    return out


def mutants(text, rng, n):
    toks = TOK_RE.findall(text)
    idx = [i for i, t in enumerate(toks) if not t.isspace()]
    out = []
    if len(idx) < 2:
        return out
    for _ in range(n):
        ts = list(toks)
        kind = rng.choice(["del", "ins", "swap"])
        i = rng.choice(idx)
        if kind == "del":
            del ts[i]
        elif kind == "ins":
            ts.insert(i, rng.choice([toks[rng.choice(idx)], "{", "}", "=", "[", "]", ",", ".", ":", "!", "?", "+", "|", "\"", "/", "/*", "\\", "\n"]))
        else:
            j = rng.choice(idx)
            ts[i], ts[j] = ts[j], ts[i]
        out.append("".join(ts))
    return out


ALPH = ["a", "b", "true", "é", "٣", "1", ".", " ", "\t", "\r", " ", "\n", "\"", "\\", "/", "*", "|", "_", "#", "→", "😀",
        "=", "{", "}", "[", "]", ",", ":", "+", "!", "?", " ", "\x00", "́"]


def random_texts(rng, n):
    out = []
    for _ in range(n):
        k = rng.choice([1, 2, 3, 5, 8, 13, 30, 80])
        mode = rng.random()
        if mode < 0.6:
            out.append("".join(rng.choice(ALPH) for _ in range(k)))
        elif mode < 0.8:
            out.append("".join(chr(rng.choice([rng.randrange(1, 128), rng.randrange(128, 0x3000), rng.randrange(0x10000, 0x10500)])) for _ in range(k)))
        else:
            # statement-shaped
            parts = []
            for _ in range(rng.randrange(1, 6)):
                parts.append(rng.choice(["a", "a.b", "a b", "a ! b", "a:b", "a = 1", "a += [1, \"x\"]", "a {", "}", "| text more text", "// c",
                                         "/* c */", "a = \"x\\\ny\"", "a = /r\\d//x/", "a \"tag\" // c", "a | desc", "", "a = [[1], []]", "a = true"]))
            out.append(rng.choice(["\n", "\n\n", " ", "\n\t"]).join(parts) + rng.choice(["", "\n", "\n\n"]))
    return out


def description_texts():
    """descriptions whose words straddle the re-flow width at several indents"""
    out = []
    for indent in range(0, 4):
        width = 80 - indent * 4
        for delta in (-2, -1, 0, 1, 2):
            n = width + delta
            words = []
            total = 0
            i = 0
            while total < n + 30:
                w = "w" * (3 + (i * 7) % 9)
                words.append(w)
                total += len(w) + 1
                i += 1
            line = " ".join(words)
            body = "| " + line[:n] + "\n" + "| " + line[n:].strip() + "\n" + "|\n" + "| second para\n"
            pre = "".join("b%d {\n" % j for j in range(indent))
            post = "}\n" * indent
            ind = "\t" * indent
            out.append(pre + "".join(ind + l + "\n" for l in body.split("\n") if l) + post)
    # words that begin with a tab / NBSP / U+2028 around the re-flow boundary
    for ws in ("\t", "\u00a0", "\u2028", " \t"):
        for n in (70, 76, 78, 80, 82):
            out.append("| " + "x" * (n - 8) + " " + "y" * 6 + " " + ws + "zz qq\n")
            out.append("b {\n\t| " + "x" * (n - 12) + " " + "y" * 6 + " " + ws + "zz qq\n}\n")
    # descriptions whose text ends (or starts) with a character that is structure elsewhere, around a blank line
    for end in ("{", "}", "[", "]", "=", "|", "//", "/*", "*/", "\\", ":", "!", "?", '"'):
        for gap in ("\n", "\n\n"):
            out.append("| words " + end + gap + "| more words\n")
            out.append("b {\n\t| words " + end + gap + "\t| more words\n}\n")
            out.append("| " + end + " words" + gap + "a = 1\n")
            out.append("b {" + gap + "\t| words " + end + gap + "}\n")
    # empty description lines in every position of a short block, already-canonical and not
    for n in range(1, 5):
        for mask in range(2 ** n):
            lines = ["| w%d" % i if mask >> i & 1 else "|" for i in range(n)]
            for ind in ("", "\t"):
                blk = "".join(ind + l + "\n" for l in lines)
                out.append(blk if not ind else "b {\n" + blk + "}\n")
                out.append("a = 1\n" + blk + "c = 2\n" if not ind else "b {\n\ta = 1\n" + blk + "}\n")
    return out


def reflow_cases(chk, quick, W):
    """Word-level re-flow model (spec/BclReflow.tla): every description of <= MaxToks tokens over words whose lengths sit
    around the line width, extra spaces, white-space-only words, line breaks and paragraph breaks; the laws Idempotent /
    WordsPreserved / LinesFit are checked by TLC on the intended algorithm, every description is formatted by the real
    code (laws on the real text; the predicted lines are compared as drift)."""
    out = []
    cfgs = ["BclReflow_i0.cfg", "BclReflow_i1.cfg"] if quick else ["BclReflow_i0t.cfg", "BclReflow_i1.cfg", "BclReflow_i2t.cfg"]
    for cfg in cfgs:
        r = chk.tlc("BclReflow.tla", cfg, cfg[:-4], workers=W, timeout=1800)
        if r.violated or r.error:
            chk.machinery_errors.append("BclReflow %s: %s %s" % (cfg, r.violated, (r.error or "")[:300]))
        for c in r.cases:
            ind = "\t" * c["indent"]
            letters = "abcdefghijklmnopqrstuvwxyz"
            lines, cur, k = [], None, 0
            for t in c["toks"]:
                if t[0] == "w":
                    w = letters[k % 26] * t[1]
                    k += 1
                    cur = w if cur is None else cur + " " + w
                elif t[0] == "gap":
                    cur = (cur or "") + " "
                elif t[0] == "blank":
                    cur = (cur or "") + " \t"
                elif t[0] == "nl":
                    lines.append(cur or "")
                    cur = None
                elif t[0] == "para":
                    lines.append(None)
            if cur is not None:
                lines.append(cur)
            body = "".join(ind + ("|" if l is None else "| " + l) + "\n" for l in lines)
            k = 0
            want = []
            for l in c["lines"]:
                ws = []
                for n in l:
                    ws.append(letters[k % 26] * n)
                    k += 1
                want.append(ind + ("| " + " ".join(ws) if ws else "|") + "\n")
            pre = "".join("\t" * j + "b%d {\n" % j for j in range(c["indent"]))
            post = "".join("\t" * j + "}\n" for j in reversed(range(c["indent"])))
            out.append({"text": pre + body + post, "want": pre + "".join(want) + post, "cls": "reflow-model"})
        r.cases = []
    return out


def validate(chk, spec, cfg, events, name, law_props, drift_key):
    """Run a trace specification over events. Returns (status, result)."""
    if not events:
        return ("empty", None)
    path = os.path.join(chk.dir, name + ".trace.ndjson")
    vcheck.write_ndjson(path, events)
    r = chk.tlc(spec, cfg, name, workers=1, env={"VERIF_TRACE": path}, timeout=1500, heap="8g")
    done = [o for (t, o) in r.lines if t == "TRACEDONE"]
    if r.violated:
        return ("law:" + r.violated, r)
    if not done or done[0]["events"] != len(events):
        return ("incomplete", r)
    chk.traces_validated += 1
    chk.trace_events += len(events)
    d = done[0].get("drift", 0)
    if d:
        chk.drift[drift_key] = chk.drift.get(drift_key, 0) + d
    return ("ok", r)


def events_of(res, op):
    ev = []
    for e in res:
        for x in ((e.get("out") or {}).get("events") or []):
            if x.get("op") == op:
                ev.append(x)
    return ev


def note_model(chk, r, what):
    if r.violated:
        chk.machinery_errors.append("model-level property %s violated in %s (spec bug: these configurations only contain properties "
                                    "that hold on the model):\n%s" % (r.violated, what, r.output[-2500:]))


def run(chk):
    prop = chk.prop
    quick = chk.tier == "quick"
    seed = chk.seed
    rng = random.Random(seed * 7919 + {"C11": 1, "C09": 2, "C19": 3}[prop])
    W = 8 if quick else vcheck.NCPU
    chk.assumptions += [
        "token atoms are concretised by harness/bcl.go (tokLexeme / lexAtoms); the driver checks that the canonical text lexes to "
        "the model's tokens and reports a mismatch as drift",
        "random byte strings and fixture mutations are outside the models' alphabets: plain randomized testing whose lexer outcome "
        "is additionally replayed by TLC on the atomised input (BclLexerTrace)",
        "description re-flow is not modelled in TLA+; it is exercised by harness-generated texts only",
    ]
    tok_cases = []
    lex_cases = []
    # ---------------- model exploration ----------------
    if prop == "C11":
        chk.rule = ("cases: (a) every input of <= 3 symbols over the 28-symbol alphabet and <= 4 (thorough 5-6) over the 14 lexer-equivalence "
                    "classes, both fail-fast values, from the rune-level machine BclLexer; (b) every token sequence of <= 3 (thorough 4) tokens over the "
                    "21 token types and pruned sequences of <= 6 (thorough 7-8) tokens from the token-level machine BclParser, plus simulated long "
                    "sequences; (c) fixture files with single-token deletions/insertions/swaps and random Unicode strings. "
                    "non-trivial = non-empty input; distinct by (fail-fast, text)")
        lex_events = []

        def lex_batch(r, name):
            """replay one configuration's cases right away (memory: thorough configurations emit ~10^6 cases)"""
            note_model(chk, r, name)
            cs = r.cases
            r.cases = []
            rs = chk.replay("bcl-lex", cs, name, workers=W, timeout="20s")
            chk.absorb("bcl-lex", cs, rs)
            ev = events_of(rs, "lex")
            rng.shuffle(ev)
            lex_events.extend(ev[:20000])
        for cfg in (["BclLexer_full3.cfg", "BclLexer_quot4.cfg"] if quick else ["BclLexer_full4c.cfg", "BclLexer_quot5.cfg"]):
            lex_batch(chk.tlc("BclLexerMC.tla", cfg, cfg[:-4], workers=W, timeout=3000), cfg[:-4])
        lex_batch(chk.tlc("BclLexerMC.tla", "BclLexer_sim.cfg", "lexsim", workers=1 if quick else 8, simulate=300 if quick else 2500, depth=200,
                          seed=seed, timeout=1500), "lexsim")
        for cfg in (["BclParser_all3.cfg", "BclParser_pruned5.cfg"] if quick else ["BclParser_all4.cfg", "BclParser_pruned6.cfg"]):
            r = chk.tlc("BclParserMC.tla", cfg, cfg[:-4], workers=W, timeout=3000)
            note_model(chk, r, cfg)
            tok_cases += r.cases
        r = chk.tlc("BclParserMC.tla", "BclParser_sim.cfg", "parsesim", workers=1 if quick else 8, simulate=400 if quick else 4000, depth=300,
                    seed=seed, timeout=1500)
        note_model(chk, r, "parser simulation")
        tok_cases += r.cases
        # the model-level counterexample for node positions (informational: replayed through the cases above)
        r = chk.tlc("BclParserMC.tla", "BclParser_nodepos.cfg", "nodepos", workers=W, timeout=600)
        chk.extra_cov["model_NodePosValid"] = "violated (counterexample found by TLC)" if r.violated else "holds on the model"
    else:
        chk.rule = ("cases: every formatter-relevant token sequence of <= 4 (thorough 5) tokens over 28 token atoms (21 token types plus multi-line and "
                    "escape-bearing literal classes) with per-control-point pruning, from the two-pass machine BclFmt (parse, render, re-parse, "
                    "compare; edit list), plus simulated sequences of up to 30 tokens; fixture files, their mutations, description texts "
                    "straddling the re-flow width at indents 0-3, and random texts. non-trivial = the parser/formatter accepts the input so the "
                    "law is evaluated; distinct by text")
        for cfg in (["BclFmt_q4.cfg"] if quick else ["BclFmt_q5.cfg"]):
            r = chk.tlc("BclFmtMC.tla", cfg, cfg[:-4], workers=W, timeout=3000)
            note_model(chk, r, cfg)
            tok_cases += r.cases
        r = chk.tlc("BclFmtMC.tla", "BclFmt_sim.cfg", "fmtsim", workers=1 if quick else 8, simulate=1500 if quick else 4000, depth=400,
                    seed=seed, timeout=1500)
        note_model(chk, r, "fmt simulation")
        tok_cases += r.cases
        for inv in ("OutputParses", "MeaningPreserved", "Idempotent", "EditsWellFormed"):
            if (prop == "C19") != (inv == "EditsWellFormed"):
                continue
            r = chk.tlc("BclFmtMC.tla", "BclFmt_cx_%s.cfg" % inv, "cx_" + inv, workers=W, timeout=900)
            chk.extra_cov["model_" + inv] = "violated (counterexample found by TLC)" if r.violated else "holds on the model"
    # ---------------- harness-generated texts ----------------
    raw = []
    fx = fixture_texts()
    for name, t in fx:
        raw.append({"text": t, "cls": "fixture"})
        for m in mutants(t, rng, 6 if quick else 60):
            raw.append({"text": m, "cls": "fixture-mutation"})
    for t in description_texts():
        raw.append({"text": t, "cls": "description-reflow"})
    if prop in ("C09", "C19"):
        raw += reflow_cases(chk, quick, W)
    # documents that end inside a token (the state of a buffer while typing), with and without a final line break
    for head in ("", "a = 1\n", "b {\n\t"):
        for open_tok in ("/* todo", "/* two\nlines", '"str', '"esc\\', "/re", "| desc", "// c", "x = [1,", "x = ", "b {", "a.b"):
            for tail in ("", "\n", "\n\n", " \n", "\r\n"):
                raw.append({"text": head + open_tok + tail, "cls": "ends-inside-token"})
    # many diagnostics in one file: the same faulty statement on 2 .. 40 lines (collect-all keeps going after each)
    for bad in ("= x", "a = ", "a.", "}", "a = [1,", "a b c = 1", "! x", "a = 1 2"):
        for n in (2, 9, 10, 11, 40):
            raw.append({"text": "\n".join([bad] * n) + "\n", "cls": "many-errors"})
            raw.append({"text": "ok = 1\n" + "\n".join([bad] * n), "cls": "many-errors"})
    for t in random_texts(rng, 1500 if quick else 40000):
        raw.append({"text": t, "cls": "random"})
    # canonical texts with other whitespace: re-indent / blank lines of fixtures
    for name, t in fx[: (10 if quick else len(fx))]:
        raw.append({"text": "\n\n" + t.replace("\n", "\n\n") + "\n\n\n", "cls": "fixture-blank-lines"})
        raw.append({"text": re.sub(r"(?m)^[ \t]+", "", t), "cls": "fixture-unindented"})
        raw.append({"text": re.sub(r"(?m)^", "      ", t), "cls": "fixture-overindented"})
    # ---------------- direction G ----------------
    res_t = chk.replay("bcl-toks", tok_cases, "toks", workers=W, timeout="20s")
    chk.absorb("bcl-toks", tok_cases, res_t)
    if prop in ("C09", "C19"):
        # the same token sequences away from the first lines of the file (line-number dependent behaviour)
        shifted = [{"toks": c["toks"], "shift": True, "cls": "shifted"} for c in tok_cases if c.get("toks")]
        res_s = chk.replay("bcl-toks", shifted, "shifted", workers=W, timeout="20s")
        chk.absorb("bcl-toks", shifted, res_s)
        chk.extra_cov["shifted_token_sequences"] = len(shifted)
    res_r = chk.replay("bcl-toks", raw, "raw", workers=W, timeout="20s")
    chk.absorb("bcl-toks", raw, res_r)
    res_l = []
    if prop == "C11":
        rawlex = [{"raw": c["text"], "ff": bool(i % 2)} for i, c in enumerate(raw) if len(c["text"]) < 3000]
        res_rl = chk.replay("bcl-lex", rawlex, "rawlex", workers=W, timeout="20s")
        chk.absorb("bcl-lex", rawlex, res_rl)
        res_l = res_rl
    # ---------------- direction T ----------------
    lim = 3000 if quick else 30000
    if prop == "C11":
        ev = lex_events + events_of(res_l, "lex")
        rng.shuffle(ev)
        # keep traces small enough for one TLC run: bound total symbols
        sel, budget = [], (60000 if quick else 600000)
        for e in ev:
            if budget <= 0:
                break
            sel.append(e)
            budget -= len(e["inp"]) + 2
        st, r = validate(chk, "BclLexerTraceMC.tla", "BclLexer_trace.cfg", sel, "lextrace", ("C11",), "C11|lexer-trace-nonconforming")
        judge(chk, st, r, "lexer")
        ev = events_of(res_t, "parse")
        rng.shuffle(ev)
        st, r = validate(chk, "BclParserTraceMC.tla", "BclParser_trace.cfg", ev[:lim], "parsetrace", ("C11",), "C11|parser-trace-nonconforming")
        judge(chk, st, r, "parser")
    if prop == "C19":
        ev = events_of(res_t, "edits") + events_of(res_r, "edits")
        rng.shuffle(ev)
        sel, budget = [], (40000 if quick else 400000)
        for e in ev:
            if budget <= 0:
                break
            sel.append(e)
            budget -= len(e["lines"]) + 3
        st, r = validate(chk, "BclEditTrace.tla", "BclEdit_trace.cfg", sel, "edittrace", ("C19",), "C19|edit-trace")
        judge(chk, st, r, "editor")
    if prop == "C09":
        # the recorded parse outcomes of the formatter's inputs are validated against the parser machine
        ev = events_of(res_t, "parse")
        rng.shuffle(ev)
        st, r = validate(chk, "BclParserTraceMC.tla", "BclParser_trace.cfg", ev[:lim], "parsetrace", ("C09",), "C09|parser-trace-nonconforming")
        if st.startswith("law:"):
            # a C11 law; not this property's verdict
            chk.notes.append("parser trace violates %s (property C11's law)" % st)
        elif st not in ("ok", "empty"):
            chk.machinery_errors.append("parser trace validation %s: %s" % (st, (r.error or r.output[-800:]) if r else ""))


def judge(chk, st, r, what):
    if st in ("ok", "empty"):
        return
    if st.startswith("law:"):
        # TLC found the law broken on recorded real-code values. The per-case predicates evaluate the same law, so a violation
        # or known finding must already be on record; otherwise the two oracles disagree.
        if not chk.violations and not chk.known_hits:
            chk.machinery_errors.append("%s trace violates %s but no per-case violation was recorded:\n%s" % (what, st, r.output[-1500:]))
        else:
            chk.notes.append("%s trace: TLC reports %s on recorded real-code values (coincides with per-case findings)" % (what, st))
        return
    chk.machinery_errors.append("%s trace validation %s: %s" % (what, st, (r.error or r.output[-1500:]) if r else ""))


def replay(prop, path):
    import check
    return check.generic_replay(prop, path)


def selftest(prop):
    chk = vcheck.Check(prop, "selftest")
    ok = True
    r = chk.tlc("BclParserMC.tla", "BclParser_all3.cfg", "st", workers=8, timeout=600)
    cases = [c for c in r.cases if c["result"] == "tree"][:300]
    res = chk.replay("bcl-toks", cases, "st", workers=8)
    if prop in ("C11", "C09"):
        ev = events_of(res, "parse")
        st, _ = validate(chk, "BclParserTraceMC.tla", "BclParser_trace.cfg", ev, "st_ok", (), "x")
        # a pristine trace may legitimately hit the C11 law on a tree with the known End defect; it must at least be consumed
        if st not in ("ok",) and not st.startswith("law:"):
            log("SELFTEST-FAIL %s: pristine parser trace: %s" % (prop, st)); ok = False
        bad = json.loads(json.dumps([e for e in ev if e["stmts"]]))[:50]
        bad[3]["stmts"][0]["sc"] += 1
        before = chk.drift.get("x", 0)
        st, _ = validate(chk, "BclParserTraceMC.tla", "BclParser_trace.cfg", bad, "st_pos", (), "x")
        if chk.drift.get("x", 0) != before + 1 and not st.startswith("law:"):
            log("SELFTEST-FAIL %s: shifted statement position not detected (%s)" % (prop, st)); ok = False
        bad = json.loads(json.dumps([e for e in ev if e["stmts"]]))[:50]
        bad[5]["stmts"][0]["el"] = -1
        st, _ = validate(chk, "BclParserTraceMC.tla", "BclParser_trace.cfg", bad, "st_law", (), "x")
        if st != "law:LawSpans":
            log("SELFTEST-FAIL %s: end-before-start statement not rejected by the law (%s)" % (prop, st)); ok = False
    if prop == "C19":
        ev = [e for e in events_of(res, "edits")]
        good = [e for e in ev if e["edits"]]
        # an overlapping edit must be rejected
        bad = json.loads(json.dumps(good[:20]))
        bad[0]["edits"].append(dict(bad[0]["edits"][0]))
        st, _ = validate(chk, "BclEditTrace.tla", "BclEdit_trace.cfg", bad, "st_overlap", (), "x")
        if st != "law:EditsWellFormed":
            log("SELFTEST-FAIL C19: duplicated (overlapping) edit not rejected (%s)" % st); ok = False
        bad = json.loads(json.dumps(good[:20]))
        bad[1]["fmt"] = bad[1]["fmt"] + ["extra"]
        st, _ = validate(chk, "BclEditTrace.tla", "BclEdit_trace.cfg", bad, "st_fmt", (), "x")
        if st != "law:AppliedEqualsFmt":
            log("SELFTEST-FAIL C19: applied text differing from Fmt not rejected (%s)" % st); ok = False
    log("SELFTEST %s %s" % ("ok" if ok else "FAILED", prop))
    return 0 if ok else 2
