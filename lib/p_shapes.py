"""C18: schema reflection over arbitrary proto3 descriptor sets is total and self-consistent.
Spec: spec/ProtoShapes.tla (+ ProtoShapesMC, ProtoShapesTrace). Driver: harness/shapes_*.go ("shapes-reflect")."""
import json
import os
import random

import vcheck
from vcheck import log

W = 4                      # worker budget of this work package (TLC workers and harness workers)
PER_CASE = "15s"           # unbounded recursion / a hang is observed as the death or time-out of a worker
KNOWN_FILE = os.path.join(vcheck.VERIF, "known_findings.shapes.jsonl")

# (name, cfg, emits cases, tiers)
EXHAUSTIVE = [
    ("focus_card", "ProtoShapes_focus_card.cfg", ("quick", "thorough")),
    ("focus_opt", "ProtoShapes_focus_opt.cfg", ("quick", "thorough")),
    ("focus_ann", "ProtoShapes_focus_ann.cfg", ("quick",)),
    ("focus_rec3", "ProtoShapes_focus_rec3.cfg", ("quick", "thorough")),
    ("pair_ann", "ProtoShapes_pair_ann.cfg", ("quick", "thorough")),
    ("graph3", "ProtoShapes_graph3.cfg", ("quick", "thorough")),
    ("graph2c", "ProtoShapes_graph2c.cfg", ("quick", "thorough")),
    ("graph3c", "ProtoShapes_graph3c.cfg", ("thorough",)),
    ("focus_full", "ProtoShapes_focus_full.cfg", ("thorough",)),
    ("pair", "ProtoShapes_pair.cfg", ("thorough",)),
    ("graph4", "ProtoShapes_graph4.cfg", ("thorough",)),
]
TERMINATION_INVS = ("NoReenter", "EntersBounded", "StackBounded", "StepsBounded")


def load_known(chk):
    if os.path.exists(KNOWN_FILE):
        for line in open(KNOWN_FILE):
            line = line.strip()
            if not line or line.startswith("#"):
                continue
            k = json.loads(line)
            if k.get("property") == chk.prop and not any(x["signature"] == k["signature"] for x in chk.known):
                chk.known.append(k)


def case_key(c):
    return json.dumps({"m": c["msgs"], "e": c["enums"]}, sort_keys=True)


def model_runs(chk, tier):
    """Direction G, model side: TLC explores the descriptor-set space, checks the skeleton's properties, emits cases."""
    cases, seen = [], set()

    def take(r, what):
        if r.violated:
            chk.machinery_errors.append("model-level property %s violated in %s (spec bug or design defect, not a code verdict):\n%s"
                                        % (r.violated, what, r.output[-2500:]))
        n = 0
        for c in r.cases:
            k = case_key(c)
            if k not in seen:
                seen.add(k)
                cases.append(c)
                n += 1
        chk.extra_cov.setdefault("cases_by_config", {})[what] = n

    for name, cfg, tiers in EXHAUSTIVE:
        if tier not in tiers:
            continue
        r = chk.tlc("ProtoShapesMC.tla", cfg, name, workers=W, timeout=3000, heap="6g")
        take(r, name)
    # the placeholder is what cuts the cycles: without it the same graphs must break a termination invariant
    r = chk.tlc("ProtoShapesMC.tla", "ProtoShapes_noguard.cfg", "noguard", workers=W, timeout=600)
    if r.violated not in TERMINATION_INVS:
        chk.machinery_errors.append("ProtoShapes with Guard = FALSE does not violate a termination invariant (%s): the model's "
                                    "termination property is vacuous" % r.violated)
    chk.extra_cov["noguard_counterexample"] = r.violated
    # random deep sets
    # (TLC's simulator computes every successor of every state it passes: ~0.3 s per behaviour with these pools)
    nsim = 100 if tier == "quick" else 2000
    r = chk.tlc("ProtoShapesMC.tla", "ProtoShapes_sim.cfg", "sim", workers=W, simulate=nsim // W, depth=80, seed=chk.seed, timeout=3000)
    take(r, "sim")
    # a free choice of the concretiser: the same sets in a file WITHOUT a package statement, the messages called Am, Bm, ...
    # (names that differ in their first letter only) - a seeded sample of the sets with two or more messages
    multi = [c for c in cases if len(c.get("msgs") or []) >= 2]
    random.Random(chk.seed).shuffle(multi)
    nop = []
    for c in multi[: (400 if tier == "quick" else 5000)]:
        c2 = json.loads(json.dumps(c))
        c2["nopkg"] = True
        nop.append(c2)
    chk.extra_cov.setdefault("cases_by_config", {})["no_package_copies"] = len(nop)
    return cases + nop


def crash_site(text):
    """The j5 function that fills a dying worker's stack dump (the one that recurses)."""
    count = {}
    for l in (text or "").split("\n"):
        l = l.strip()
        if l.startswith("github.com/pentops/j5/") and "verifh" not in l:
            fn = l.rsplit("(", 1)[0].replace("github.com/pentops/j5/", "")
            count[fn] = count.get(fn, 0) + 1
    best = sorted(count.items(), key=lambda kv: (-kv[1], kv[0]))
    return best[0][0] if best else "unknown-site"


def crash_kind(e):
    if e.get("timeout") and not (e.get("crash") or "").strip():
        return "timeout"
    t = e.get("crash") or ""
    if "stack overflow" in t or "goroutine stack exceeds" in t:
        return "stack-overflow"
    return "crash"


MINIMISE_PER_GROUP = 12


def run_cases(chk, cases, name):
    """Direction G, code side. Returns envelopes; a worker death is re-examined in sub-processes (minimised, attributed)."""
    res = chk.replay("shapes-reflect", cases, name, workers=W, timeout=PER_CASE)
    dead = [i for i, e in enumerate(res) if e.get("crash") or e.get("timeout")]
    chk.extra_cov["worker_deaths"] = chk.extra_cov.get("worker_deaths", 0) + len(dead)
    if dead:
        # identical shapes die identically: minimise some representatives per (kind of death, recursing function, recursion form);
        # the others keep the class and the recursing function (crash_sig)
        groups = {}
        for i in dead:
            groups.setdefault((crash_kind(res[i]), crash_site(res[i].get("crash")), cases[i].get("rec")), []).append(i)
        pick = [i for g in groups.values() for i in g[:MINIMISE_PER_GROUP]]
        again = []
        for i in pick:
            c = dict(cases[i])
            c["mincrash"] = True
            again.append(c)
        r2 = chk.replay("shapes-reflect", again, name + "_mincrash", workers=W, timeout="300s")
        chk.extra_cov["worker_deaths_minimised"] = chk.extra_cov.get("worker_deaths_minimised", 0) + len(pick)
        for i, e2 in zip(pick, r2):
            o2 = e2.get("out") or {}
            if o2.get("viol"):
                res[i] = e2
            elif o2 and (o2.get("obs") or {}).get("reproduced") is False:
                chk.machinery_errors.append("worker died on a case but the death is not reproducible in a sub-process: %s"
                                            % json.dumps(cases[i])[:600])
    return res


def crash_sig(c, e, sig):
    # a worker death that was not minimised: class of death and the recursing function
    return "C18|%s|%s|%s|unminimised" % ("timeout" if crash_kind(e) == "timeout" else "crash|" + crash_kind(e),
                                         crash_site(e.get("crash")), "rec=" + str(c.get("rec")))


def events_of(res):
    clean, bad = [], []
    for e in res:
        o = e.get("out") or {}
        for ev in o.get("events") or []:
            (bad if o.get("viol") else clean).append(ev)
    return clean, bad


def validate_trace(chk, events, name, strict):
    path = os.path.join(chk.dir, name + ".trace.ndjson")
    vcheck.write_ndjson(path, events)
    cfg = "ProtoShapes_trace.cfg" if strict else "ProtoShapes_trace_known.cfg"
    r = chk.tlc("ProtoShapesTraceMC.tla", cfg, name, workers=1, env={"VERIF_TRACE": path}, timeout=3000, heap="6g")
    done = [o for (t, o) in r.lines if t == "TRACEDONE"]
    if r.violated == "Law":
        return "law", r, None
    if r.violated:
        return "model:" + r.violated, r, None
    if not done or done[0]["events"] != len(events):
        return "incomplete", r, None
    chk.traces_validated += 1
    chk.trace_events += len(events)
    if done[0]["drift"]:
        chk.drift["C18|trace-nonconforming"] = chk.drift.get("C18|trace-nonconforming", 0) + done[0]["drift"]
    return "ok", r, done[0]


def run(chk):
    quick = chk.tier == "quick"
    rng = random.Random(chk.seed * 7919 + 18)
    load_known(chk)
    chk.rule = ("a case is a terminal state of spec/ProtoShapes.tla: one proto3 file (messages, nested messages, enums, real and "
                "proto3-optional oneofs, maps, repeated fields, all 15 scalar kinds, 17 well-known / j5 message types, recursion forms, "
                "j5.ext / buf.validate / j5.list option values consistent or not with the field). quick: exhaustive single focus "
                "(every kind x cardinality x oneof/map-key form without annotation; every kind x {single,repeated,map} x every "
                "consistent annotation value and 50 representative inconsistent ones; every message/oneof/enum option), every type graph "
                "on <= 3 messages, and seeded simulation; thorough adds every cardinality x annotation, pairs over reduced pools, every "
                "graph on 4 messages, more simulation. distinct = distinct descriptor set (hash of messages+enums); non-trivial = the set "
                "has an annotation, a non-plain kind, a reference, a container or an option")
    chk.assumptions += [
        "descriptor sets are one file in one package linked against the global registry; cross-package references are not generated",
        "the populated message of a type is one message per single populated field plus one with every field populated, with "
        "simple valid values (7, 1.5, \"a\", true, second enum value, small well-known-type values), recursion populated to depth 2",
        "'matching kind' is decided by a generous table (e.g. sfixed64 would be accepted under an INT64 schema); only a schema kind whose "
        "values are not the proto field's values counts as a mismatch",
        "a google.protobuf.Any can only be decoded by a codec built with WithProtoToAny; the driver retries the decode with such a codec "
        "before calling it a failure",
        "NewRoot returning (nil, nil) is counted as a violation: it is neither a schema nor an error",
        "model prediction builds/errors is compared as drift only",
    ]
    cases = model_runs(chk, chk.tier)
    chk.exhaustive = True
    if not cases:
        chk.machinery_errors.append("no cases emitted")
        return
    res = run_cases(chk, cases, "model")
    skipped = [(c, e) for c, e in zip(cases, res) if (e.get("out") or {}).get("skip")]
    if skipped:
        chk.machinery_errors.append("%d emitted cases could not be built into a linked proto3 file, e.g. %s: %s"
                                    % (len(skipped), json.dumps(skipped[0][0])[:400], skipped[0][1]["out"]["skip"]))
    chk.absorb("shapes-reflect", cases, res, crash_sig=crash_sig)
    tot = {"schemas": 0, "props": 0, "codecs": 0}
    outcome = {}
    for e in res:
        obs = ((e.get("out") or {}).get("obs") or {})
        for k in tot:
            tot[k] += obs.get(k, 0) or 0
        real = obs.get("real") or {}
        if real:
            outcome[real.get("set")] = outcome.get(real.get("set"), 0) + 1
    chk.extra_cov.update({"schemas_inspected": tot["schemas"], "property_paths_resolved": tot["props"],
                          "codec_round_trips": tot["codecs"], "schema_set_outcomes": outcome})
    # direction T
    clean, bad = events_of(res)
    lim_clean, lim_bad = (3000, 1500) if quick else (30000, 15000)
    if len(clean) > lim_clean:
        rng.shuffle(clean)
        clean = clean[:lim_clean]
    if len(bad) > lim_bad:
        rng.shuffle(bad)
        bad = bad[:lim_bad]
    if clean:
        v, tr, _ = validate_trace(chk, clean, "trace_clean", True)
        if v == "law":
            chk.machinery_errors.append("ProtoShapesTrace finds the law broken on a recorded call for which the driver reported no "
                                        "violation (the two oracles disagree):\n%s" % tr.output[-1500:])
        elif v != "ok":
            chk.machinery_errors.append("trace validation (clean) %s: %s\n%s" % (v, tr.violated or tr.error, tr.output[-1500:]))
    if bad:
        v, tr, done = validate_trace(chk, bad, "trace_violating", False)
        if v != "ok":
            chk.machinery_errors.append("trace validation (violating) %s: %s\n%s" % (v, tr.violated or tr.error, tr.output[-1500:]))
        elif done["law"] != len(bad):
            chk.machinery_errors.append("the driver reported violations on %d recorded sets but ProtoShapesTrace's law fails on %d of them"
                                        % (len(bad), done["law"]))
        chk.extra_cov["trace_events_law_broken"] = done["law"] if done else None


def replay(prop, path):
    """Re-run one recorded case on the real code (a case that kills the worker is minimised in sub-processes) and print what happens."""
    rec = json.load(open(path))
    case = rec.get("case") or (rec.get("replay_example") or {}).get("case") or rec
    chk = vcheck.Check(prop, "replay")
    chk.known = []
    res = run_cases(chk, [case], "replay")
    chk.absorb("shapes-reflect", [case], res, crash_sig=crash_sig)
    proto = chk.replay("shapes-proto", [case], "proto", workers=1)
    log(((proto[0].get("out") or {}).get("note") or "").rstrip())
    for v in ((res[0].get("out") or {}).get("viol") or []):
        log("  " + v["sig"] + "\n      " + v["detail"][:1200].replace("\n", "\n      "))
    return chk.finish()


def selftest(prop):
    """V4: corrupted recordings must be rejected, a broken implementation must be flagged, the model property must not be vacuous."""
    chk = vcheck.Check(prop, "selftest")
    ok = True
    r = chk.tlc("ProtoShapesMC.tla", "ProtoShapes_focus_opt.cfg", "st_cases", workers=W, timeout=600)
    cases = r.cases[:150]
    res = chk.replay("shapes-reflect", cases, "st", workers=W, timeout=PER_CASE)
    clean, bad = events_of(res)
    if len(clean) < 10:
        log("SELFTEST-FAIL C18: too few clean events (%d)" % len(clean))
        return 2
    v, _, done = validate_trace(chk, clean, "st_ok", True)
    if v != "ok" or done["drift"] != 0:
        log("SELFTEST-FAIL C18: pristine trace not accepted (%s %s)" % (v, done))
        ok = False
    # 1. a recorded nil root with a nil error must break the law
    x = json.loads(json.dumps(clean))
    x[3]["real"]["root"][0] = "nilnil"
    v, _, _ = validate_trace(chk, x, "st_law1", True)
    if v != "law":
        log("SELFTEST-FAIL C18: recorded nil/nil root not rejected (%s)" % v)
        ok = False
    # 2. a recorded unresolved path must break the law
    x = json.loads(json.dumps(clean))
    x[5]["real"]["pathsOK"] = False
    v, _, _ = validate_trace(chk, x, "st_law2", True)
    if v != "law":
        log("SELFTEST-FAIL C18: recorded unresolved path not rejected (%s)" % v)
        ok = False
    # 3. a flipped outcome class is non-conformance (drift), not a law violation
    x = json.loads(json.dumps(clean))
    i = next(k for k, ev in enumerate(x) if ev["real"]["set"] == "ok")
    x[i]["real"]["set"] = "error"
    before = chk.drift.get("C18|trace-nonconforming", 0)
    v, _, _ = validate_trace(chk, x, "st_drift", True)
    if v != "ok" or chk.drift.get("C18|trace-nonconforming", 0) != before + 1:
        log("SELFTEST-FAIL C18: flipped outcome not counted as non-conformance (%s)" % v)
        ok = False
    # 4. counting mode counts exactly the corrupted events
    x = json.loads(json.dumps(clean))
    x[1]["real"]["codec"] = "fail"
    x[2]["real"]["namesUnique"] = False
    v, _, done = validate_trace(chk, x, "st_count", False)
    if v != "ok" or done["law"] != 2:
        log("SELFTEST-FAIL C18: counting mode (%s %s)" % (v, done))
        ok = False
    # 5. without the placeholder the model must lose termination
    r = chk.tlc("ProtoShapesMC.tla", "ProtoShapes_noguard.cfg", "st_noguard", workers=W, timeout=600)
    if r.violated not in TERMINATION_INVS:
        log("SELFTEST-FAIL C18: Guard = FALSE does not break termination in the model (%s)" % r.violated)
        ok = False
    # 6. the driver flags a real defect when nothing is listed as known
    probe = {"mode": "selftest", "msgs": [{"name": "M0", "parent": 0, "opt": "none", "oneofs": [], "fields": [
        {"name": "f1", "kind": "bool", "ref": "", "card": "single", "key": "", "oneof": 0,
         "anns": [{"cls": "validate", "arm": "bool", "var": "const", "consistent": True}]}]}], "enums": [],
        "predSet": "builds", "predMsg": ["builds"], "rec": "none"}
    pr = chk.replay("shapes-reflect", [probe], "st_probe", workers=1, timeout=PER_CASE)
    sigs = [v["sig"] for v in ((pr[0].get("out") or {}).get("viol") or [])]
    if not any(s.startswith("C18|panic|lib/j5schema.buildScalarType|bool/") for s in sigs):
        log("SELFTEST-NOTE C18: the bool-const probe no longer panics (fixed?): %s" % sigs)
    log("SELFTEST %s C18" % ("ok" if ok else "FAILED"))
    return 0 if ok else 2
