"""Shared machinery for /verif checks: building the harness against /repo's working tree,
running TLC (exhaustive, simulation, trace validation), replaying model cases through the real
code in isolated workers, known-findings handling and evidence assembly.

Exit codes of a check: 0 property held on everything explored (KNOWN-FINDING / DRIFT lines allowed),
1 at least one unlisted violation observed on the real code, 2 the machinery could not decide.
"""
import hashlib
import json
import os
import re
import shutil
import subprocess
import sys
import time

VERIF = os.path.dirname(os.path.dirname(os.path.abspath(__file__)))
REPO = os.environ.get("VERIF_REPO", "/repo")
SPEC = os.path.join(VERIF, "spec")
OUT = os.environ.get("VERIF_OUT") or os.path.join(VERIF, "out")
EVIDENCE = os.environ.get("VERIF_EVIDENCE") or os.path.join(VERIF, "evidence")
GO_ENV = {"GOFLAGS": "-mod=mod", "GOPROXY": "off"}
NCPU = os.cpu_count() or 8


class MachineryError(Exception):
    pass


def log(*a):
    print(*a, flush=True)


def go_env():
    e = dict(os.environ)
    e.update(GO_ENV)
    # GOSUMDB=off / GOTOOLCHAIN=local break the offline switch to the cached go1.24.1 toolchain
    e.pop("GOSUMDB", None)
    if e.get("GOTOOLCHAIN") == "local":
        e.pop("GOTOOLCHAIN")
    e.setdefault("GOCACHE", os.path.expanduser("~/.cache/go-build"))
    return e


def build_vh(race=False, tags="verif"):
    """Build the harness binary from /verif/harness against /repo's current working tree."""
    os.makedirs(os.path.join(OUT, "bin"), exist_ok=True)
    name = "vh-race" if race else "vh"
    exe = os.path.join(OUT, "bin", name)
    src = os.path.join(VERIF, "harness")
    if os.path.realpath(REPO) != "/repo":
        # checking a scratch copy of the repository (mutation testing): build from a private copy of the harness
        # whose go.mod points at it, so /repo and concurrent runs are not disturbed
        priv = os.path.join(OUT, "harness_src")
        shutil.rmtree(priv, ignore_errors=True)
        shutil.copytree(src, priv)
        gm = open(os.path.join(priv, "go.mod")).read().replace("=> /repo", "=> " + os.path.realpath(REPO))
        open(os.path.join(priv, "go.mod"), "w").write(gm)
        src = priv
    # go.sum must match the repository's
    try:
        shutil.copyfile(os.path.join(REPO, "go.sum"), os.path.join(src, "go.sum"))
    except OSError:
        pass
    cmd = ["go", "build", "-tags", tags, "-o", exe]
    if race:
        cmd.insert(2, "-race")
    cmd.append(".")
    t0 = time.time()
    p = subprocess.run(cmd, cwd=src, env=go_env(), capture_output=True, text=True)
    if p.returncode != 0:
        raise MachineryError("harness build failed (does /repo compile?):\n" + p.stdout + p.stderr)
    return exe


class TLCResult:
    def __init__(self):
        self.generated = 0
        self.distinct = 0
        self.depth = 0
        self.cases = []
        self.lines = []       # other PrintT tuples
        self.violated = None  # name of violated invariant/property
        self.error = None     # TLC-level error text
        self.wall = 0.0
        self.output = ""
        self.coverage = {}
        self.traces = 0

    @property
    def ok(self):
        return self.violated is None and self.error is None


_case_re = re.compile(r'^<<"(CASE|[A-Z][A-Z0-9_-]*)", (.*)>>$')


def _parse_tlc_string(s):
    """TLC prints strings with \\" and \\\\ escapes; JSON inside is the payload."""
    assert s.startswith('"') and s.endswith('"')
    body = s[1:-1]
    out = []
    i = 0
    while i < len(body):
        c = body[i]
        if c == "\\" and i + 1 < len(body):
            n = body[i + 1]
            if n == "n":
                out.append("\n")
            elif n == "t":
                out.append("\t")
            else:
                out.append(n)
            i += 2
        else:
            out.append(c)
            i += 1
    return "".join(out)


def run_tlc(spec, cfg, workdir, *, workers=None, simulate=None, depth=None, seed=None, timeout=600,
            coverage=False, env=None, extra=None, tag="tlc", deque=False, keep_output=False, heap=None):
    """Run TLC on spec (module file name in SPEC) with cfg. simulate = number of behaviours or None."""
    os.makedirs(workdir, exist_ok=True)
    # copy all spec files into the work dir (TLC litters)
    for f in os.listdir(SPEC):
        if f.endswith(".tla") or f.endswith(".cfg"):
            shutil.copyfile(os.path.join(SPEC, f), os.path.join(workdir, f))
    meta = os.path.join(workdir, "md_" + tag)
    shutil.rmtree(meta, ignore_errors=True)
    if workers is None:
        workers = NCPU
    java = ["java", "-XX:+UseParallelGC", "-Xss256m"]
    # several checks (and TLC runs) may share the machine: never take the JVM's default quarter of RAM
    java.append("-Xmx" + (heap or os.environ.get("VERIF_TLC_HEAP", "6g")))
    if deque:
        java.append("-Dtlc2.tool.queue.IStateQueue=StateDeque")
    # TLC unpacks its standard modules into java.io.tmpdir on every start: keep that inside the scratch dir
    jtmp = os.path.join(workdir, "jtmp")
    os.makedirs(jtmp, exist_ok=True)
    java.append("-Djava.io.tmpdir=" + jtmp)
    cmd = ["timeout", str(int(timeout))] + java + [
        "-cp", "/opt/veriftools/tla/tla2tools.jar:/opt/veriftools/tla/CommunityModules-deps.jar",
        "tlc2.TLC", "-workers", str(workers), "-metadir", meta, "-config", cfg]
    if simulate is not None:
        cmd += ["-simulate", "num=%d" % simulate]
        if depth:
            cmd += ["-depth", str(depth)]
        if seed is not None:
            cmd += ["-seed", str(seed)]
    if coverage:
        cmd += ["-coverage", "1"]
    if extra:
        cmd += extra
    cmd.append(spec)
    e = dict(os.environ)
    if env:
        e.update(env)
    t0 = time.time()
    outpath = os.path.join(workdir, tag + ".out")
    with open(outpath, "w") as fo:
        p = subprocess.run(cmd, cwd=workdir, env=e, stdout=fo, stderr=subprocess.STDOUT, text=True)
    r = TLCResult()
    r.wall = time.time() - t0
    other = []
    with open(outpath) as fi:
        for line in fi:
            line = line.rstrip("\n")
            m = _case_re.match(line)
            if m:
                try:
                    payload = m.group(2)
                    if payload.startswith('"'):
                        obj = json.loads(_parse_tlc_string(payload))
                    else:
                        obj = payload
                except Exception as ex:  # noqa
                    raise MachineryError("cannot parse TLC case line: %s (%s)" % (line[:300], ex))
                if m.group(1) == "CASE":
                    r.cases.append(obj)
                else:
                    r.lines.append((m.group(1), obj))
                continue
            other.append(line)
            m = re.match(r"^(\d+) states generated, (\d+) distinct states found", line)
            if m:
                r.generated = int(m.group(1))
                r.distinct = int(m.group(2))
            m = re.match(r"^The depth of the complete state graph search is (\d+)", line)
            if m:
                r.depth = int(m.group(1))
            m = re.match(r"^The number of states generated: (\d+)", line)
            if m:
                r.generated = int(m.group(1))
                r.distinct = r.distinct or r.generated
            m = re.match(r"^Progress: (\d+) states checked, (\d+) traces generated", line)
            if m:
                r.traces = int(m.group(2))
            m = re.match(r"^Error: Invariant (\S+) is violated", line)
            if m:
                r.violated = m.group(1)
            m = re.match(r"^Error: Action property (\S+) is violated", line)
            if m:
                r.violated = m.group(1)
            if line.startswith("Error: Temporal properties were violated") or line.startswith("Error: Deadlock reached"):
                r.violated = r.violated or line[7:]
            if line.startswith("Error:") and r.violated is None and r.error is None:
                r.error = line
            m = re.match(r"^<(\w+) line (\d+), col \d+ to line \d+, col \d+ of module (\w+)>: (\d+):(\d+)", line)
            if m:
                r.coverage[m.group(1) + "@" + m.group(3)] = r.coverage.get(m.group(1) + "@" + m.group(3), 0) + int(m.group(5))
    r.output = "\n".join(other[-80:])
    if p.returncode == 124:
        r.error = "TLC timed out after %ds" % timeout
    elif p.returncode not in (0,) and r.violated is None and r.error is None:
        r.error = "TLC exit %d" % p.returncode
    if not keep_output and r.ok:
        # keep the (possibly large) raw output only on failure
        try:
            os.remove(outpath)
        except OSError:
            pass
    shutil.rmtree(meta, ignore_errors=True)
    return r


def sany(module):
    p = subprocess.run(["tla-sany", module], cwd=SPEC, capture_output=True, text=True)
    ok = p.returncode == 0 and "Semantic errors" not in p.stdout and "***Parse Error***" not in p.stdout \
        and "Fatal errors" not in p.stdout
    return ok, p.stdout + p.stderr


def load_known():
    path = os.path.join(VERIF, "known_findings.jsonl")
    known, fixed = [], []
    if os.path.exists(path):
        for line in open(path):
            line = line.strip()
            if not line or line.startswith("#"):
                continue
            if line.startswith("fixed:"):
                fixed.append(line)
                continue
            known.append(json.loads(line))
    return known, fixed


class Check:
    """One run of one property's check."""

    def __init__(self, prop, tier, seed=None):
        self.prop = prop
        self.tier = tier
        self.seed = int(os.environ.get("VERIF_SEED", "1") or "1") if seed is None else seed
        self.dir = os.path.join(OUT, prop, tier)
        shutil.rmtree(self.dir, ignore_errors=True)
        os.makedirs(self.dir, exist_ok=True)
        self.t0 = time.time()
        self.states = 0
        self.transitions = 0
        self.traces_validated = 0
        self.trace_events = 0
        self.evaluations = 0
        self.keys = set()
        self.nontrivial_keys = set()
        self.samples = []
        self.violations = []      # (sig, detail, replay path)
        self.known_hits = {}      # sig -> (entry, count)
        self.drift = {}           # sig -> count
        self.timeout_retries = 0
        self.agree = 0
        self.model_runs = []
        self.assumptions = []
        self.notes = []
        self.exhaustive = False
        self.rule = ""
        self.known, self.fixed = load_known()
        self.known = [k for k in self.known if k.get("property") == prop]
        self.machinery_errors = []
        self._vh = None
        self._vh_race = None
        self.extra_cov = {}

    # ---------- building ----------
    def vh(self, race=False):
        if race:
            if not self._vh_race:
                self._vh_race = build_vh(race=True)
            return self._vh_race
        if not self._vh:
            self._vh = build_vh()
        return self._vh

    # ---------- TLC ----------
    def tlc(self, spec, cfg, name, **kw):
        wd = os.path.join(self.dir, "tlc")
        r = run_tlc(spec, cfg, wd, tag=name, **kw)
        self.states += r.distinct
        self.transitions += r.generated
        self.model_runs.append({"name": name, "spec": spec, "cfg": cfg, "distinct_states": r.distinct,
                                "states_generated": r.generated, "depth": r.depth, "cases": len(r.cases),
                                "wall_s": round(r.wall, 1), "simulate": kw.get("simulate"),
                                "violated": r.violated, "error": r.error})
        if r.error:
            raise MachineryError("TLC %s/%s: %s\n%s" % (spec, cfg, r.error, r.output[-3000:]))
        return r

    # ---------- replay through the real code ----------
    def replay(self, driver, cases, name, workers=None, timeout="10s", race=False, env=None):
        """Run cases (list of dicts) through `vh run driver`; returns list of result envelopes."""
        exe = self.vh(race=race)
        inf = os.path.join(self.dir, name + ".cases.ndjson")
        outf = os.path.join(self.dir, name + ".results.ndjson")
        with open(inf, "w") as f:
            for c in cases:
                f.write(json.dumps(c, separators=(",", ":")) + "\n")
        if workers is None:
            workers = NCPU
        e = go_env()
        if env:
            e.update(env)
        p = subprocess.run([exe, "run", driver, "-in", inf, "-out", outf, "-workers", str(workers), "-timeout", timeout],
                           capture_output=True, text=True, env=e)
        if p.returncode != 0:
            raise MachineryError("vh run %s failed: %s" % (driver, p.stderr[-2000:]))
        res = [json.loads(l) for l in open(outf)]
        if len(res) != len(cases):
            raise MachineryError("vh run %s: %d results for %d cases" % (driver, len(res), len(cases)))
        return res

    def vh_one(self, driver, case, race=False, timeout=60):
        exe = self.vh(race=race)
        p = subprocess.run([exe, "one", driver, json.dumps(case)], capture_output=True, text=True, timeout=timeout,
                           env=go_env())
        return p

    # ---------- verdict bookkeeping ----------
    def write_replay(self, driver, case, sig, detail):
        d = os.path.join(self.dir, "replay")
        os.makedirs(d, exist_ok=True)
        h = hashlib.sha1((sig + json.dumps(case, sort_keys=True)).encode()).hexdigest()[:12]
        path = os.path.join(d, "%s_%s.json" % (self.prop, h))
        with open(path, "w") as f:
            json.dump({"property": self.prop, "driver": driver, "case": case, "sig": sig, "detail": detail}, f, indent=1)
        return path

    def match_known(self, sig):
        for k in self.known:
            pat = k["signature"]
            if pat == sig:
                return k
            if pat.endswith("*") and sig.startswith(pat[:-1]):
                return k
        return None

    def violation(self, driver, case, sig, detail):
        k = self.match_known(sig)
        if k is not None:
            e = self.known_hits.setdefault(k["signature"], [k, 0, sig, detail])
            e[1] += 1
            return
        path = self.write_replay(driver, case, sig, detail)
        self.violations.append((sig, detail, path))

    def absorb(self, driver, cases, results, *, panic_is_violation=True, crash_sig=None, sample_every=None):
        """Fold replay results into the check's verdict. Returns list of (case, envelope)."""
        n = len(results)
        for idx, (c, e) in enumerate(zip(cases, results)):
            self.evaluations += 1
            if e.get("timeout") and self.timeout_retries < 20:
                # a case that ran out of its budget in the loaded worker pool is confirmed alone, with a larger budget, before it counts
                self.timeout_retries += 1
                try:
                    e2 = self.replay(driver, [c], "timeout_retry_%d" % self.timeout_retries, workers=1, timeout="240s")[0]
                    if not e2.get("timeout"):
                        self.notes.append("a %s case timed out in the pool and completed when re-run alone: judged by the second run" % driver)
                        e = e2
                        results[idx] = e2
                except MachineryError:
                    pass
            out = e.get("out") or {}
            key = out.get("key") or json.dumps(c, sort_keys=True)
            if out.get("skip"):
                continue
            self.keys.add(key)
            if out.get("nontrivial"):
                self.nontrivial_keys.add(key)
            bad = False
            if e.get("panic"):
                first = e["panic"].split("\n")[0]
                site = _panic_site(e["panic"])
                sig = "%s|panic|%s" % (self.prop, site)
                if crash_sig:
                    sig = crash_sig(c, e, sig)
                if panic_is_violation:
                    self.violation(driver, c, sig, "panic: " + first + " at " + site)
                else:
                    self.machinery_errors.append("panic in driver %s: %s" % (driver, e["panic"][:1500]))
                bad = True
            elif e.get("timeout"):
                sig = "%s|timeout" % self.prop
                if crash_sig:
                    sig = crash_sig(c, e, sig)
                if panic_is_violation:
                    self.violation(driver, c, sig, "no result within the per-case budget (hang or unbounded recursion)")
                else:
                    self.machinery_errors.append("timeout in driver %s" % driver)
                bad = True
            elif e.get("crash"):
                first = e["crash"].split("\n")[0]
                sig = "%s|crash|%s" % (self.prop, first[:80])
                if crash_sig:
                    sig = crash_sig(c, e, sig)
                if first.startswith("harness:"):
                    self.machinery_errors.append(e["crash"][:1500])
                elif panic_is_violation:
                    self.violation(driver, c, sig, "worker died: " + e["crash"][:600])
                else:
                    self.machinery_errors.append("crash in driver %s: %s" % (driver, e["crash"][:1500]))
                bad = True
            for v in out.get("viol") or []:
                if not v["sig"].startswith(self.prop + "|"):
                    continue  # the driver also evaluates sibling properties; they are decided by their own checks
                self.violation(driver, c, v["sig"], v["detail"])
                bad = True
            dr = out.get("drift") or []
            for d in dr:
                self.drift[d["sig"]] = self.drift.get(d["sig"], 0) + 1
            if not dr and not bad:
                self.agree += 1
            if len(self.samples) < 3 or (bad and len(self.samples) < 6):
                self.samples.append({"driver": driver, "case": _shorten(c), "result": _shorten(out) if out else e})
        return list(zip(cases, results))

    # ---------- finishing ----------
    def finish(self, level="model_checking"):
        wall = time.time() - self.t0
        for k, n, sig, detail in self.known_hits.values():
            log("KNOWN-FINDING: property=%s %s [%s; %d case(s) this run, e.g. %s]" % (
                self.prop, k.get("what_fails", ""), k["signature"], n, detail[:200].replace("\n", " ")))
        for sig, n in sorted(self.drift.items()):
            log("DRIFT property=%s %s (%d case(s)): model prediction differs from the implementation on an attribute "
                "the property does not demand" % (self.prop, sig, n))
        seen = set()
        for sig, detail, path in self.violations:
            if sig in seen:
                continue
            seen.add(sig)
            log("VIOLATION property=%s replay=%s sig=%s %s" % (self.prop, path, sig, detail[:300].replace("\n", " ")))
        cov = {
            "states": self.states,
            "transitions": self.transitions,
            "traces_validated_against_impl": self.traces_validated,
            "trace_events_validated": self.trace_events,
            "evaluations": self.evaluations,
            "distinct_cases": len(self.keys),
            "distinct_nontrivial": len(self.nontrivial_keys),
            "rule": self.rule,
            "samples": self.samples[:6] or [{"note": "no cases replayed"}],
            "model_agreement": {"agree": self.agree, "drift": sum(self.drift.values()), "drift_signatures": sorted(self.drift)[:20]},
            "model_runs": self.model_runs,
            "exhaustive": self.exhaustive,
            "known_findings_hit": {k: v[1] for k, v in self.known_hits.items()},
            "notes": self.notes,
        }
        cov.update(self.extra_cov)
        ev = {
            "property_id": self.prop,
            "tier": self.tier if self.tier in ("quick", "thorough") else "quick",
            "seed": self.seed,
            "level": level,
            "coverage": cov,
            "assumptions": self.assumptions,
            "wall_s": round(wall, 1),
            "violations": len(seen),
        }
        os.makedirs(EVIDENCE, exist_ok=True)
        if self.tier in ("quick", "thorough"):
            with open(os.path.join(EVIDENCE, self.prop + ".json"), "w") as f:
                json.dump(ev, f, indent=1)
        if self.machinery_errors:
            for m in self.machinery_errors[:5]:
                log("MACHINERY-ERROR property=%s %s" % (self.prop, m[:1500]))
            return 2
        log("RESULT property=%s tier=%s seed=%d states=%d evaluations=%d distinct=%d nontrivial=%d traces=%d "
            "violations=%d known=%d drift=%d wall=%.1fs" % (
                self.prop, self.tier, self.seed, self.states, self.evaluations, len(self.keys), len(self.nontrivial_keys),
                self.traces_validated, len(seen), len(self.known_hits), sum(self.drift.values()), wall))
        return 1 if seen else 0


def _panic_site(text):
    """First stack frame inside pentops/j5 (not the harness): stable signature for a panic."""
    lines = text.split("\n")
    for i, l in enumerate(lines):
        l = l.strip()
        if l.startswith("github.com/pentops/j5/") and "verifh" not in l:
            fn = l.split("(")[0]
            fn = fn.replace("github.com/pentops/j5/", "")
            return fn
    return lines[0][:80]


def _shorten(o, lim=600):
    s = json.dumps(o, sort_keys=True)
    if len(s) <= lim:
        return o
    return {"truncated": s[:lim]}


def write_ndjson(path, rows):
    with open(path, "w") as f:
        for r in rows:
            f.write(json.dumps(r, separators=(",", ":")) + "\n")
