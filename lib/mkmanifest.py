"""Regenerates MANIFEST.json from the table below (kept in one place so it stays valid)."""
import json, os, sys
here = os.path.dirname(os.path.dirname(os.path.abspath(__file__)))
sys.path.insert(0, os.path.join(here, "lib"))
from manifest_table import CHECKS, PENDING, HOOK_COMMITS  # noqa

checks = []
for pid, c in sorted(CHECKS.items()):
    checks.append({
        "property_id": pid,
        "quick_cmd": "bin/check %s quick" % pid,
        "thorough_cmd": "bin/check %s thorough" % pid,
        "evidence_file": "evidence/%s.json" % pid,
        "replay_cmd_template": "bin/check %s --replay {path}" % pid,
        "engine": "tlc+vh",
        "level_claimed": {"category": "model_checking", "text": c["text"], "design_ref": c["design_ref"]},
        "level_note": c["note"],
        "technique": c["technique"],
    })
m = {
    "version": 1,
    "setup_cmd": "bin/setup",
    "hooks": {
        "guard": "verif",
        "enable": "-tags verif (bin/check builds the harness and /repo with it)",
        "baseline_off_cmd": "cd /repo && GOFLAGS=-mod=mod go test -vet=off -count=1 -timeout 25m ./...",
        "source_commits": HOOK_COMMITS,
        "add_only": True,
    },
    "engines": [{
        "name": "tlc+vh", "path": "bin/check",
        "serves_properties": sorted(CHECKS),
        "kind_free_text": "explicit TLA+ specifications in spec/ checked with TLC; model behaviours replayed into the real code by "
                          "the Go harness (harness/, binary vh, isolated worker subprocesses) and traces recorded from the real code "
                          "validated by TLC against *Trace.tla specifications",
    }],
    "checks": checks,
    "notes": "See DESIGN.md. Exit 0 = held (KNOWN-FINDING/DRIFT lines are informational), 1 = VIOLATION reproduced on the real code, 2 = machinery could not decide.",
    "not_applicable": [{"property_id": p, "reason": r} for p, r in sorted(PENDING.items()) if p not in CHECKS],
}
json.dump(m, open(os.path.join(here, "MANIFEST.json"), "w"), indent=1)
print("MANIFEST.json:", len(checks), "checks,", len(m["not_applicable"]), "not_applicable")
