"""bin/check entry point: dispatches to the per-property modules in lib/props/."""
import importlib
import json
import os
import sys
import traceback

sys.path.insert(0, os.path.dirname(os.path.abspath(__file__)))
import vcheck  # noqa: E402

MODULES = {
    "C01": "p_wire",
    "C02": "p_schema",
    "C03": "p_wire",
    "C04": "p_rules",
    "C05": "p_pipe",
    "C06": "p_wire",
    "C08": "p_wire",
    "C12": "p_rules",
    "C13": "p_schema",
    "C14": "p_schema",
    "C15": "p_pipe",
    "C16": "p_pipe",
    "C17": "p_entity",
    "C07": "p_lang",
    "C09": "p_bcl",
    "C10": "p_c10",
    "C11": "p_bcl",
    "C18": "p_shapes",
    "C19": "p_bcl",
    "C20": "p_id62",
}


def main(argv):
    if len(argv) < 3:
        print("usage: check <ID> <quick|thorough|selftest|--replay path>")
        return 2
    prop, tier = argv[1], argv[2]
    if prop not in MODULES:
        print("no check for", prop)
        return 2
    mod = importlib.import_module(MODULES[prop])
    try:
        if tier == "--replay":
            return mod.replay(prop, argv[3])
        if tier == "selftest":
            return mod.selftest(prop)
        tier = os.environ.get("VERIF_TIER", tier) if tier not in ("quick", "thorough") else tier
        chk = vcheck.Check(prop, tier)
        mod.run(chk)
        return chk.finish()
    except vcheck.MachineryError as e:
        print("MACHINERY-ERROR property=%s %s" % (prop, str(e)[:4000]))
        return 2
    except Exception:
        traceback.print_exc()
        print("MACHINERY-ERROR property=%s unexpected exception" % prop)
        return 2


def generic_replay(prop, path):
    """Re-run one recorded case on the real code and print what happens."""
    rec = json.load(open(path))
    chk = vcheck.Check(prop, "replay")
    res = chk.replay(rec["driver"], [rec["case"]], "replay", workers=1, timeout="60s")
    chk.known = []
    chk.absorb(rec["driver"], [rec["case"]], res)
    print(json.dumps(res[0], indent=1)[:6000])
    rc = chk.finish()
    return rc


if __name__ == "__main__":
    sys.exit(main(sys.argv))
