"""C07: the j5s compiler is total and accepts the whole documented language. Spec: spec/J5Lang.tla (+ J5LangTrace.tla)."""
import json
import os
import random
import re
import subprocess

import vcheck
from vcheck import log
from p_bcl import TOK_RE, random_texts


def mutate(text, rng):
    toks = TOK_RE.findall(text)
    idx = [i for i, t in enumerate(toks) if not t.isspace()]
    if len(idx) < 2:
        return text
    ts = list(toks)
    kind = rng.choice(["del", "ins", "swap", "dup-line", "del-line"])
    i = rng.choice(idx)
    if kind == "del":
        del ts[i]
    elif kind == "ins":
        ts.insert(i, rng.choice([toks[rng.choice(idx)], "{", "}", "=", "[", "]", ",", ".", ":", "!", "?", "+", "|", "\"", "/", "\n", "object", "field", "x"]))
    elif kind == "swap":
        j = rng.choice(idx)
        ts[i], ts[j] = ts[j], ts[i]
    else:
        lines = text.split("\n")
        k = rng.randrange(len(lines))
        if kind == "dup-line":
            lines.insert(k, lines[k])
        else:
            del lines[k]
        return "\n".join(lines)
    return "".join(ts)


def run(chk):
    quick = chk.tier == "quick"
    seed = chk.seed
    rng = random.Random(seed * 31 + 7)
    W = 8 if quick else vcheck.NCPU
    chk.rule = ("cases: every single-construct file of spec/J5Lang.tla: 8 containers (object, oneof option, request, response, publish / reqres / "
                "upsert topic messages) x 23 field kinds x {single, array, map} x 6 presence forms x rule sets of <= 2 (thorough 3) rules from the "
                "schema.proto catalogue with boundary value atoms, each in a file that contains nothing else, plus one of 17 semantic faults; "
                "token/line mutations of those files; random Unicode texts. Each is compiled with the real PackageSet and linted (LintFile, LintAll). "
                "non-trivial = all cases (each exercises valid=>accepted or error=>positioned); distinct by source text")
    chk.assumptions += [
        "Valid in J5Lang.tla is the model's reading of 'documented language' (README, schema.proto *.Rules, j5parse schema); faults that the "
        "compiler accepts are reported as drift of that reading, not as violations",
        "random bytes and mutations are plain randomized testing outside the model's alphabet",
    ]
    r = chk.tlc("J5Lang.tla", "J5Lang_q.cfg" if quick else "J5Lang_t.cfg", "lang", workers=W, timeout=3000)
    if r.violated:
        chk.machinery_errors.append("J5Lang model property %s violated:\n%s" % (r.violated, r.output[-2000:]))
    cases = r.cases
    if quick:
        # the three entry points share the parse/convert/link pipeline: lint every 4th case, all faults
        for i, c in enumerate(cases):
            if i % 4 and not c.get("fault"):
                c["nolint"] = True
    res = chk.replay("lang-compile", cases, "lang", workers=W, timeout="30s")
    chk.absorb("lang-compile", cases, res)
    # mutations of the concrete texts of valid cases (needs the printed text: ask the driver through a tiny side channel: the
    # replay key holds "<focus>\0<src><nfiles>")
    texts = []
    for c, e in zip(cases, res):
        key = (e.get("out") or {}).get("key") or ""
        if c.get("valid") and "\x00" in key and not c["kind"].endswith("-ref"):
            texts.append(key.split("\x00", 1)[1][:-1])
    rng.shuffle(texts)
    raw = []
    for t in texts[: (1500 if quick else 20000)]:
        raw.append({"files": {"foo/v1/focus.j5s": mutate(t, rng)}, "focus": "foo/v1/focus.j5s", "cls": "mutation"})
    for t in random_texts(rng, 500 if quick else 10000):
        raw.append({"files": {"foo/v1/focus.j5s": rng.choice(["", "package foo.v1\n\n"]) + t}, "focus": "foo/v1/focus.j5s", "cls": "random"})
    # bundles: several files of one package that refer to each other (found by the J5Schema simulation of C02)
    A = "package foo.v1\n\nobject Apple {\n\tfield b object:Banana\n}\n"
    B = "package foo.v1\n\nobject Banana {\n\tfield a object:Apple\n}\n"
    C = "package foo.v1\n\nobject Cherry {\n\tfield a object:Apple\n\tfield c array:object:Cherry\n}\n"
    raw.append({"files": {"foo/v1/focus.j5s": A, "foo/v1/b.j5s": B}, "focus": "foo/v1/focus.j5s", "cls": "bundle-mutual-files"})
    raw.append({"files": {"foo/v1/focus.j5s": C, "foo/v1/a.j5s": A.replace("object:Banana", "object:Cherry")}, "focus": "foo/v1/focus.j5s",
                "cls": "bundle-mutual-files"})
    raw.append({"files": {"foo/v1/focus.j5s": C, "foo/v1/a.j5s": A.replace("\tfield b object:Banana\n", "\tfield n string\n")},
                "focus": "foo/v1/focus.j5s", "cls": "bundle-one-way"})
    # entity declarations of spec/J5Entity.tla (every key marker combination, events, commands, summaries, query settings):
    # all valid, all must compile
    re_ = chk.tlc("J5EntityMC.tla", "J5Entity_quick.cfg", "entities", workers=W, timeout=1800)
    ents = re_.cases
    re_.cases = []
    random.Random(chk.seed).shuffle(ents)
    seen_e, first_e, rest_e = set(), [], []
    for c in ents:
        k = c.get("focus", "")
        (rest_e if k in seen_e else first_e).append(c)
        seen_e.add(k)
    ents = first_e + rest_e[: (4000 if quick else 40000)]
    pres = chk.replay("entity-print", ents, "entprint", workers=W, timeout="60s")
    nent = 0
    for e in pres:
        note = (e.get("out") or {}).get("note") or ""
        # (the printer driver also tries to compile and appends the error: here a declaration that does not compile is the finding)
        note = note.split("\nERROR:")[0]
        if note:
            # (generated files are linked in path order: "wallet" sorts after the service/ and topic/ sub-packages, "foo" before)
            fn = "foo/v1/%s.j5s" % ("foo" if nent % 2 else "wallet")
            # (every third declaration also goes through the single-file linter, LintFile / LintAll: the generated service
            # and topic files import the main generated file)
            raw.append({"files": {fn: note}, "focus": fn, "cls": "entity", "valid": True, "nolint": nent % 3 != 0})
            nent += 1
    chk.extra_cov["entity_declarations"] = nent
    res2 = chk.replay("lang-compile", raw, "raw", workers=W, timeout="30s")
    chk.absorb("lang-compile", raw, res2)
    # multi-file / multi-package bundles of the j5s language model (spec/J5Schema.tla): imports by package, alias and file
    # path, references across files and packages in every cardinality, services, topics - all valid, all must compile
    rb = chk.tlc("J5CompileMC.tla", "J5Compile_quick.cfg", "bundles", workers=W, timeout=3000, heap="12g")
    bundles = rb.cases
    rb.cases = []
    if quick:
        # every focus construct once per base bundle shape, the rest a seeded sample
        rnd = random.Random(chk.seed)
        rnd.shuffle(bundles)
        seen, first, rest = set(), [], []
        for c in bundles:
            k = (c.get("focus", ""), len(c["ast"]["pkgs"]), sum(len(p["files"]) for p in c["ast"]["pkgs"]))
            (rest if k in seen else first).append(c)
            seen.add(k)
        bundles = first + rest[:3000]
    bundles = [{"focus": c.get("focus", ""), "ast": c["ast"]} for c in bundles]
    res3 = chk.replay("lang-bundle", bundles, "bundles", workers=W, timeout="60s")
    chk.absorb("lang-bundle", bundles, res3)
    chk.extra_cov["bundles_compiled"] = sum(1 for e in res3 if ((e.get("out") or {}).get("obs") or {}).get("files"))
    chk.extra_cov["bundles"] = len(bundles)
    # direction T
    events = []
    rejected_valid = 0
    for c, e in zip(cases, res):
        out = e.get("out") or {}
        for x in out.get("events") or []:
            events.append(x)
        if any(v["sig"].startswith("C07|valid-rejected|") for v in out.get("viol") or []):
            rejected_valid += 1
        elif c.get("valid") and (e.get("panic") or e.get("crash") or e.get("timeout")):
            pass
    path = os.path.join(chk.dir, "lang.trace.ndjson")
    vcheck.write_ndjson(path, events)
    if events:
        tr = chk.tlc("J5LangTrace.tla", "J5Lang_trace.cfg", "langtrace", workers=1, env={"VERIF_TRACE": path}, timeout=1500)
        done = [o for (t, o) in tr.lines if t == "TRACEDONE"]
        if tr.violated or not done or done[0]["events"] != len(events):
            chk.machinery_errors.append("J5LangTrace did not consume the trace: %s %s" % (tr.violated, tr.output[-1200:]))
        else:
            chk.traces_validated += 1
            chk.trace_events += len(events)
            if done[0]["drift"]:
                chk.drift["C07|trace-valid-claim"] = done[0]["drift"]
            if done[0]["rejectedValid"] != rejected_valid:
                chk.machinery_errors.append("trace specification counts %d valid programs rejected by the compiler, direction G recorded %d" % (
                    done[0]["rejectedValid"], rejected_valid))
            chk.extra_cov["valid_programs_rejected"] = done[0]["rejectedValid"]
            chk.extra_cov["faulty_programs_accepted"] = done[0]["acceptedFault"]


def replay(prop, path):
    import check
    return check.generic_replay(prop, path)


def selftest(prop):
    chk = vcheck.Check(prop, "selftest")
    r = chk.tlc("J5Lang.tla", "J5Lang_q.cfg", "lang", workers=8, timeout=600)
    cases = [c for c in r.cases if c["valid"] and c["container"] == "object" and c["presence"] == "none"][:200]
    res = chk.replay("lang-compile", cases, "st", workers=8, timeout="30s")
    events = [x for e in res for x in ((e.get("out") or {}).get("events") or [])]
    ok = True

    def run_trace(evs, name):
        path = os.path.join(chk.dir, name + ".ndjson")
        vcheck.write_ndjson(path, evs)
        tr = chk.tlc("J5LangTrace.tla", "J5Lang_trace.cfg", name, workers=1, env={"VERIF_TRACE": path}, timeout=600)
        done = [o for (t, o) in tr.lines if t == "TRACEDONE"]
        return done[0] if done else None
    base = run_trace(events, "st_ok")
    if not base or base["events"] != len(events):
        log("SELFTEST-FAIL C07: pristine trace not consumed"); ok = False
    else:
        bad = json.loads(json.dumps(events))
        i = next(k for k, e in enumerate(bad) if e["compiled"])
        bad[i]["compiled"] = False
        d = run_trace(bad, "st_flip")
        if not d or d["rejectedValid"] != base["rejectedValid"] + 1:
            log("SELFTEST-FAIL C07: a flipped 'compiled' flag is not counted as a rejected valid program"); ok = False
        bad = json.loads(json.dumps(events))
        bad[i]["kind"] = "nonsense"
        d = run_trace(bad, "st_kind")
        if not d or d["drift"] != base["drift"] + 1:
            log("SELFTEST-FAIL C07: a construct outside the catalogue is not flagged by Valid"); ok = False
    log("SELFTEST %s C07" % ("ok" if ok else "FAILED"))
    return 0 if ok else 2
