"""Development aid: run TLC on a config, replay its cases through a driver, summarise.
usage: python3 lib/dev.py <Module.tla> <cfg> <driver> [simulate=N depth=D seed=S workers=W limit=L timeout=T]"""
import collections, json, os, sys
sys.path.insert(0, os.path.dirname(os.path.abspath(__file__)))
import vcheck

def main():
    spec, cfg, driver = sys.argv[1:4]
    kw = dict(a.split("=") for a in sys.argv[4:])
    chk = vcheck.Check("DEV", "dev_%d" % os.getpid())
    tkw = {}
    if "simulate" in kw:
        tkw.update(simulate=int(kw["simulate"]), depth=int(kw.get("depth", 100)), seed=int(kw.get("seed", 1)))
    if "workers" in kw:
        tkw["workers"] = int(kw["workers"])
    r = chk.tlc(spec, cfg, "dev", timeout=int(kw.get("timeout", 900)), keep_output=True, **tkw)
    print("TLC: generated=%d distinct=%d cases=%d violated=%s wall=%.1fs" % (r.generated, r.distinct, len(r.cases), r.violated, r.wall))
    if r.violated:
        print(r.output[-3000:])
    cases = r.cases
    if "limit" in kw:
        cases = cases[:int(kw["limit"])]
    if driver == "-":
        for c in cases[:5]:
            print(json.dumps(c)[:600])
        return
    res = chk.replay(driver, cases, "dev", timeout=kw.get("pertimeout", "10s"))
    c = collections.Counter(); ex = {}
    for cs, e in zip(cases, res):
        o = e.get("out") or {}
        for k in ("panic", "crash", "timeout"):
            if e.get(k):
                key = k + ":" + (vcheck._panic_site(e[k]) if k == "panic" else "")
                c[key] += 1; ex.setdefault(key, (cs, e[k]))
        if o.get("skip"):
            c["skip:" + o["skip"][:60]] += 1
        for v in o.get("viol", []):
            c["V:" + v["sig"]] += 1; ex.setdefault("V:" + v["sig"], (cs, v["detail"]))
        for v in o.get("drift", []):
            c["D:" + v["sig"]] += 1; ex.setdefault("D:" + v["sig"], (cs, v["detail"]))
    print("replayed", len(res), "nontrivial", sum(1 for e in res if (e.get("out") or {}).get("nontrivial")))
    for k, v in c.most_common(int(kw.get("top", 25))):
        print(v, k, "::", (str(ex[k][1]).replace("\n", " ")[:260] if k in ex else ""))
    json.dump({k: ex[k][0] for k in ex}, open(os.path.join(chk.dir, "examples.json"), "w"), indent=1)

main()
