import os, sys, subprocess
sys.path.insert(0, os.path.dirname(os.path.abspath(__file__)))
import vcheck
from check import MODULES

def main():
    exe = vcheck.build_vh()
    print("built", exe)
    bad = 0
    for f in sorted(os.listdir(vcheck.SPEC)):
        if f.endswith(".tla"):
            ok, out = vcheck.sany(f)
            if not ok:
                print("SANY FAILED", f, out[-2000:])
                bad += 1
    print("sany: all modules parsed" if not bad else "sany: %d failed" % bad)
    if "--no-selftest" not in sys.argv:
        for pid in sorted(MODULES):
            p = subprocess.run([os.path.join(vcheck.VERIF, "bin", "check"), pid, "selftest"])
            if p.returncode != 0:
                print("selftest failed for", pid)
                bad += 1
    return 1 if bad else 0

sys.exit(main())
