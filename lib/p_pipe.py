"""Pipeline family: C05 (print/re-parse), C15 (source-API round trip), C16 (tool-chain closure + client contract).
Spec: spec/Pipeline.tla (+ PipelineTrace.tla); program space from spec/J5Schema.tla / J5Compile.tla, J5Lang.tla, J5Entity.tla."""
import glob
import json
import os
import random

import vcheck
from vcheck import log


def crash_sig(prop):
    def f(case, env, default):
        cls = case.get("cls") or ("lang" if case.get("lang") else "ast")
        return default + "|" + cls
    return f


def gather_programs(chk, quick, rng, W):
    cases = []
    # (a) programs of the j5s language model
    r = chk.tlc("J5CompileMC.tla", "J5Compile_lite.cfg" if quick else "J5Compile_quick.cfg", "programs", workers=W, timeout=2400, heap="12g")
    if r.violated:
        chk.notes.append("J5Compile model reports %s (C02's business)" % r.violated)
    progs = r.cases
    r.cases = []
    if quick and len(progs) > 1500:
        # stratified: every focus construct of the catalogue is kept at least once, the rest is a seeded sample
        rng.shuffle(progs)
        seen, first, rest = set(), [], []
        for c in progs:
            # ... in every place it can take in the chain of edits (first, followed by one or two plain appends, ...):
            # what comes AFTER a construct matters to the printer as much as what comes before
            labels = [e.get("label", "") for e in c.get("hist", [])]
            rich_at = next((i for i, l in enumerate(labels) if l), -1)
            f = (c.get("focus", ""), rich_at, len(labels))
            (rest if f in seen else first).append(c)
            seen.add(f)
        progs = (first + rest)[:max(1500, len(first))]
    for c in progs:
        c["cls"] = "ast"
    cases += progs
    # (b) every field kind / cardinality / presence / rule in request, response and topic positions
    r = chk.tlc("J5Lang.tla", "J5Lang_q.cfg", "lang", workers=W, timeout=1200)
    lang = [c for c in r.cases if c.get("valid")]
    r.cases = []
    rng.shuffle(lang)
    # stratified: every (container, kind, cardinality, presence) once, then a seeded sample
    seen, first, rest = set(), [], []
    for c in lang:
        k = (c.get("container"), c.get("kind"), c.get("card"), c.get("presence"))
        (rest if k in seen else first).append(c)
        seen.add(k)
    lim = 1500 if quick else 12000
    for c in (first + rest)[:max(lim, len(first))]:
        cases.append({"lang": c})
    # (b2) every rule / annotation of the schema.proto catalogue (program space of C04)
    r = chk.tlc("J5RulesMC.tla", "J5Rules_reflect1.cfg", "rules", workers=W, timeout=1500)
    rules = r.cases
    r.cases = []
    rng.shuffle(rules)
    for c in rules[: (1200 if quick else 20000)]:
        cases.append({"rules": {"decl": c.get("decl", c), "opts": {"anchor": False, "markForm": bool(rng.getrandbits(1)), "enumNums": bool(rng.getrandbits(1))}}})
    # (c) entities
    r = chk.tlc("J5EntityMC.tla", "J5Entity_quick.cfg", "entities", workers=W, timeout=1800)
    ents = r.cases
    r.cases = []
    rng.shuffle(ents)
    ents = ents[: (300 if quick else 3000)]
    res = chk.replay("entity-print", ents, "entprint", workers=W, timeout="60s")
    for e in res:
        note = (e.get("out") or {}).get("note") or ""
        if note and "\nERROR:" not in note:
            cases.append({"files": {"foo/v1/foo.j5s": note}, "cls": "entity"})
    # (d) hand-written sources: the repository's own j5s test package and proto trees
    for root in sorted(glob.glob(os.path.join(vcheck.REPO, "proto", "*"))):
        if os.path.isdir(root):
            cases.append({"proto_root": root, "cls": "proto-tree:" + os.path.basename(root)})
    # (e) recursive and cross-referencing shapes the generators do not build
    rec = {
        "foo/v1/rec.j5s": "package foo.v1\n\nobject Node {\n\tfield id key:id62\n\tfield children array:object:Node\n\tfield parent object:Node\n\tfield peer object:Peer\n}\n\n"
                          "object Peer {\n\tfield node object:Node\n\tfield byName map:object:Node\n}\n\noneof Tree {\n\toption leaf object {\n\t\tfield v string\n\t}\n"
                          "\toption branch object {\n\t\tfield left oneof:Tree\n\t\tfield right oneof:Tree\n\t}\n}\n\n"
                          "service Nodes {\n\tbasePath = \"/foo/v1\"\n\tmethod GetNode {\n\t\thttpMethod = \"GET\"\n\t\thttpPath = \"/node/:id\"\n\t\trequest {\n\t\t\tfield id key:id62\n"
                          "\t\t}\n\t\tresponse {\n\t\t\tfield node object:Node\n\t\t\tfield tree oneof:Tree\n\t\t}\n\t}\n\tmethod PutNode {\n\t\thttpMethod = \"PUT\"\n"
                          "\t\thttpPath = \"/node/:id/sub/:subId\"\n\t\trequest {\n\t\t\tfield id key:id62\n\t\t\tfield subId string\n\t\t\tfield node object:Node\n\t\t}\n"
                          "\t\tresponse {\n\t\t}\n\t}\n\tmethod DelNode {\n\t\thttpMethod = \"DELETE\"\n\t\thttpPath = \"/node/:id\"\n\t\trequest {\n\t\t\tfield id key:id62\n\t\t}\n"
                          "\t}\n}\n",
    }
    cases.append({"files": rec, "cls": "recursive"})
    flat = {"foo/v1/flat.j5s": "package foo.v1\n\nobject Outer {\n\tfield inner object:Inner {\n\t\tflatten = true\n\t}\n\tfield name string\n}\n\nobject Inner {\n\tfield a string\n\tfield more object:Outer\n}\n"}
    cases.append({"files": flat, "cls": "recursive-flatten"})
    # two list methods over one object whose fields carry every kind of list rule (an enum default filter by short name)
    cases.append({"files": {"foo/v1/tickets.j5s": open(os.path.join(vcheck.VERIF, "programs", "list_filters.j5s")).read()}, "cls": "list-rules"})
    # a list method whose item type contains itself (directly and through a second object), with list rules inside the cycle
    reclist = open(os.path.join(vcheck.VERIF, "programs", "recursive_list.j5s")).read()
    cases.append({"files": {"foo/v1/rec.j5s": reclist}, "cls": "recursive-list"})
    cases.append({"files": {"foo/v1/rec.j5s": reclist.replace("field parent object:Node\n", "field parent oneof {\n\t\toption node object:Node\n\t\toption peer object:Peer\n\t}\n")}, "cls": "recursive-list"})
    # (f) a proto tree whose packages refer into each other's sub-packages (service / topic) without touching the parent package:
    # with the partial images of the pipeline driver every such parent is exported as an indirect package found only through a sub-package
    cases.append({"proto_root": os.path.join(vcheck.VERIF, "programs", "cross_sub"), "cls": "proto-tree:cross-sub", "image": True})
    # (g) every reference graph of spec/PackageExport.tla over three root packages and their service / topic sub-packages, written
    # as a proto tree (one file and one message per node, one field per reference); the driver exports it once per named root
    r = chk.tlc("PackageExport.tla", "PackageExport_q.cfg" if quick else "PackageExport_t.cfg", "pkgexport", workers=W, timeout=900)
    if r.violated:
        chk.machinery_errors.append("PackageExport model violates %s" % r.violated)
    graphs = r.cases
    r.cases = []
    rng.shuffle(graphs)
    # graphs with an edge into a sub-package first (the parent is then reached only through the sub-package)
    graphs.sort(key=lambda g: -sum(1 for e in g.get("refs", []) if e[0].split(".")[:2] != e[1].split(".")[:2] and e[1].count(".") == 2))
    nodes = [r0 + s for r0 in ("a.v1", "b.v1", "c.v1") for s in ("", ".service", ".topic")]
    for gi, g in enumerate(graphs[: (300 if quick else 4000)]):
        root = os.path.join(chk.dir, "pkgexport_trees", "g%05d" % gi)
        for n in nodes:
            outs = [e[1] for e in g.get("refs", []) if e[0] == n]
            path = os.path.join(root, n.replace(".", "/"), "node.proto")
            os.makedirs(os.path.dirname(path), exist_ok=True)
            imps = sorted({t for t in outs if t != n})
            txt = "syntax = \"proto3\";\n\npackage %s;\n\n" % n
            txt += "".join("import \"%s/node.proto\";\n" % t.replace(".", "/") for t in imps) + ("\n" if imps else "")
            txt += "message Msg {\n  string id = 1;\n"
            for k, t in enumerate(outs):
                shape = ("%s.Msg", "repeated %s.Msg", "map<string, %s.Msg>")[(gi + k) % 3] % t
                txt += "  %s ref_%d = %d;\n" % (shape, k, k + 2)
            txt += "}\n"
            open(path, "w").write(txt)
        cases.append({"proto_root": root, "cls": "proto-tree:pkgexport", "image": True, "graph": g.get("refs", [])})
    j5st = {}
    for p in glob.glob(os.path.join(vcheck.REPO, "j5stest", "proto", "**", "*.j5s"), recursive=True):
        j5st[os.path.relpath(p, os.path.join(vcheck.REPO, "j5stest", "proto"))] = open(p).read()
    if j5st:
        cases.append({"files": j5st, "cls": "j5stest"})
    return cases


def run(chk):
    prop = chk.prop
    quick = chk.tier == "quick"
    rng = random.Random(chk.seed * 131 + 5)
    W = 8 if quick else vcheck.NCPU
    chk.rule = ("programs: (a) bundles of the j5s language model J5Schema/J5Compile (focus-exhaustive catalogue of field types, references, imports, "
                "services with every verb / path pattern, topics), (b) single-construct files of J5Lang (every field kind, cardinality, presence and "
                "rule in object / request / response / topic position), (c) entity declarations of J5Entity, (d) the repository's hand-written proto "
                "trees and j5s test package, (e) recursive / flattened-recursive shapes, (f, C15 only) the raw proto3 descriptor sets of "
                "spec/ProtoShapes.tla; each is compiled and run through the stages of "
                "spec/Pipeline.tla. non-trivial = the program compiles so that the stages run; distinct by program")
    chk.assumptions += [
        "descriptor equivalence for C05 normalises: empty option messages = absent, effective JSON names, order of extension declarations and "
        "of import lines, source info other than leading comments",
        "the client contract of C16 is compared with the services / http rules of the compiled descriptors (property C02 ties those to the source)",
        "programs the compiler rejects are skipped (properties C02 / C07 decide those)",
    ]
    r = chk.tlc("Pipeline.tla", "Pipeline_model.cfg", "model", workers=4, timeout=300)
    if r.violated:
        chk.machinery_errors.append("Pipeline model violates %s" % r.violated)
    cases = gather_programs(chk, quick, rng, W)
    res = chk.replay("pipeline", cases, "pipe", workers=W, timeout="90s")
    chk.absorb("pipeline", cases, res, crash_sig=crash_sig(prop))
    if prop == "C05":
        # hand-written proto files beyond the repository's own: the descriptor sets of ProtoShapes with every buf.validate / j5
        # annotation and its option values (numbers that need all their digits included)
        import p_shapes
        shapes, seen = [], set()
        for name, cfg, tiers in p_shapes.EXHAUSTIVE:
            if name not in ("focus_ann", "focus_opt", "focus_card", "pair_ann") or (chk.tier not in tiers and name != "focus_ann"):
                continue
            r2 = chk.tlc("ProtoShapesMC.tla", cfg, "shapes_" + name, workers=W, timeout=3000)
            for c in r2.cases:
                k = p_shapes.case_key(c)
                if k not in seen:
                    seen.add(k)
                    shapes.append(c)
            r2.cases = []
        if quick and len(shapes) > 8000:
            random.Random(chk.seed).shuffle(shapes)
            shapes = shapes[:8000]
        sres = chk.replay("shapes-c05", shapes, "shapes", workers=W, timeout="30s")
        chk.absorb("shapes-c05", shapes, sres, crash_sig=crash_sig(prop))
        chk.extra_cov["raw_proto_descriptor_sets_printed"] = len(shapes)
    if prop == "C15":
        # "... and from generated raw proto files using the J5-supported subset": the descriptor sets of ProtoShapes (C18's
        # program space: every scalar kind and cardinality, oneof forms, maps, well-known types, message graphs, consistent
        # and inconsistent j5 / validate / list annotations). Sets the reader rejects are C18's subject and skipped.
        import p_shapes
        shapes, seen = [], set()
        for name, cfg, tiers in p_shapes.EXHAUSTIVE:
            if chk.tier not in tiers or (quick and name in ("graph3",)):
                continue
            r2 = chk.tlc("ProtoShapesMC.tla", cfg, "shapes_" + name, workers=W, timeout=3000)
            for c in r2.cases:
                k = p_shapes.case_key(c)
                if k not in seen:
                    seen.add(k)
                    shapes.append(c)
            r2.cases = []
        sres = chk.replay("shapes-c15", shapes, "shapes", workers=W, timeout="30s")
        chk.absorb("shapes-c15", shapes, sres, crash_sig=crash_sig(prop))
        chk.extra_cov["raw_proto_descriptor_sets"] = len(shapes)
        chk.extra_cov["raw_proto_descriptor_sets_round_tripped"] = sum(1 for e in sres if (e.get("out") or {}).get("nontrivial"))
    skipped = sum(1 for e in res if (e.get("out") or {}).get("skip"))
    empty = sum(1 for e in res if (e.get("out") or {}).get("note") == "EMPTY-PROGRAM")
    if empty:
        chk.machinery_errors.append("%d programs compiled to no file at all (harness does not read the case): the stages would hold vacuously" % empty)
    by_cls = {}
    for c, e in zip(cases, res):
        o = e.get("out") or {}
        k = (c.get("cls") or ("lang" if "lang" in c else "rules" if "rules" in c else "?")).split(":")[0]
        n = by_cls.setdefault(k, {"programs": 0, "ran": 0, "files": 0})
        n["programs"] += 1
        if o.get("nontrivial"):
            n["ran"] += 1
            n["files"] += (o.get("obs") or {}).get("files", 0)
    chk.extra_cov["programs_by_class"] = by_cls
    for k, n in by_cls.items():
        if n["programs"] >= 20 and n["ran"] * 2 < n["programs"]:
            chk.machinery_errors.append("program class %s: only %d of %d programs ran through the stages" % (k, n["ran"], n["programs"]))
    chk.extra_cov["programs"] = len(cases)
    chk.extra_cov["programs_rejected_by_compiler"] = skipped
    # direction T
    events = []
    nviol = 0
    for e in res:
        out = e.get("out") or {}
        evs = [x for x in (out.get("events") or []) if x.get("op") == "pipeline" and x.get("stages")]
        if not evs or out.get("skip"):
            continue
        events += evs
        if any(v["sig"].startswith(prop + "|") for v in out.get("viol") or []):
            nviol += 1
    if events:
        path = os.path.join(chk.dir, "pipe.trace.ndjson")
        vcheck.write_ndjson(path, events)
        tr = chk.tlc("PipelineTrace.tla", "Pipeline_trace.cfg", "trace", workers=1, env={"VERIF_TRACE": path}, timeout=1200)
        done = [o for (t, o) in tr.lines if t == "TRACEDONE"]
        if tr.violated or not done or done[0]["events"] != len(events):
            chk.machinery_errors.append("PipelineTrace did not accept the recorded runs: %s\n%s" % (tr.violated, tr.output[-1200:]))
        else:
            chk.traces_validated += len(events)
            chk.trace_events += len(events)
            key = {"C05": "c05", "C15": "c15", "C16": "c16"}[prop]
            chk.extra_cov["runs_violating_%s_per_trace_spec" % prop] = done[0][key]
            if done[0][key] != nviol:
                chk.machinery_errors.append("trace specification counts %d runs violating %s, direction G recorded %d" % (done[0][key], prop, nviol))

    # direction T for the package closure (C15): every real export of a PackageExport graph with one named root, loaded into the
    # specification as a finished export and judged by its invariants (exported nodes = least fixed point, listed / indirect packages)
    if prop == "C15":
        def node(n):
            parts = n.split(".")
            return [".".join(parts[:2]), parts[2] if len(parts) > 2 else ""]
        pev = []
        for c, e in zip(cases, res):
            out = e.get("out") or {}
            if "graph" not in c or out.get("skip"):
                continue
            for x in out.get("events") or []:
                if x.get("op") != "partial-images":
                    continue
                for cl in x.get("closures") or []:
                    pev.append({"refs": [[node(a), node(b)] for a, b in c["graph"]], "named": cl["named"], "listed": cl.get("listed") or [],
                                "indirect": cl.get("indirect") or [], "exported": [node(n) for n in cl.get("exported") or []]})
        chk.extra_cov["package_closure_exports_recorded"] = len(pev)
        if pev:
            path = os.path.join(chk.dir, "pkgexport.trace.ndjson")
            vcheck.write_ndjson(path, pev)
            tr = chk.tlc("PackageExportTrace.tla", "PackageExport_trace.cfg", "pkgexport_trace", workers=1, env={"VERIF_TRACE": path}, timeout=1200)
            done = [o for (t, o) in tr.lines if t == "TRACEDONE"]
            if tr.violated:
                # the real export is not the one the model computes: reported as drift unless the re-import / re-export above failed too
                sig = "C15|package-closure|PackageExportTrace rejects a recorded export: %s" % tr.violated
                chk.drift[sig] = chk.drift.get(sig, 0) + 1
                chk.notes.append(sig + "\n" + tr.output[-1500:])
            elif not done or done[0]["events"] != len(pev):
                chk.machinery_errors.append("PackageExportTrace did not run to the end of the recorded exports\n%s" % tr.output[-1200:])
            else:
                chk.traces_validated += len(pev)
                chk.trace_events += len(pev)
        elif any("graph" in c for c in cases):
            chk.machinery_errors.append("no export of a PackageExport graph was recorded: the closure leg is dead")


def replay(prop, path):
    import check
    return check.generic_replay(prop, path)


def selftest(prop):
    chk = vcheck.Check(prop, "selftest")
    cases = [{"files": {"foo/v1/a.j5s": "package foo.v1\n\nobject Foo {\n\tfield a string\n}\n"}, "cls": "st"}]
    res = chk.replay("pipeline", cases, "st", workers=1, timeout="60s")
    ev = [x for e in res for x in ((e.get("out") or {}).get("events") or [])]
    ok = bool(ev)

    def run_trace(evs, name):
        path = os.path.join(chk.dir, name + ".ndjson")
        vcheck.write_ndjson(path, evs)
        tr = chk.tlc("PipelineTrace.tla", "Pipeline_trace.cfg", name, workers=1, env={"VERIF_TRACE": path}, timeout=300)
        done = [o for (t, o) in tr.lines if t == "TRACEDONE"]
        return done[0] if done and not tr.violated else None
    if ok:
        d = run_trace(ev, "st_ok")
        if not d or d["c05"] or d["c15"] or d["c16"]:
            log("SELFTEST-FAIL %s: pristine run not accepted: %s" % (prop, d)); ok = False
        bad = json.loads(json.dumps(ev))
        bad[0]["stages"]["openapi"] = "panic"
        d = run_trace(bad, "st_bad")
        if not d or d["c16"] != 1:
            log("SELFTEST-FAIL %s: a panicking stage is not counted against C16" % prop); ok = False
        bad = json.loads(json.dumps(ev))
        bad[0]["stages"]["source-api"] = "error"   # later stages recorded as run although their input failed
        if run_trace(bad, "st_order") is not None:
            log("SELFTEST-FAIL %s: a run whose stages ran after a failed prerequisite was accepted" % prop); ok = False
    if prop == "C15":
        # binding of PackageExportTrace: a recorded export closure is accepted, the same record with one listed package removed is not
        good = {"refs": [[["a.v1", ""], ["b.v1", "service"]]], "named": "a.v1", "listed": ["a.v1", "b.v1"], "indirect": ["b.v1"],
                "exported": [["a.v1", ""], ["a.v1", "service"], ["a.v1", "topic"], ["b.v1", "service"]]}
        lost = dict(good, listed=["a.v1"], indirect=[])

        def closure_trace(evs, name):
            path = os.path.join(chk.dir, name + ".ndjson")
            vcheck.write_ndjson(path, evs)
            tr = chk.tlc("PackageExportTrace.tla", "PackageExport_trace.cfg", name, workers=1, env={"VERIF_TRACE": path}, timeout=300)
            return (not tr.violated) and any(t == "TRACEDONE" and o["events"] == len(evs) for (t, o) in tr.lines)
        if not closure_trace([good], "pe_good"):
            log("SELFTEST-FAIL %s: a correct export closure is not accepted by PackageExportTrace" % prop); ok = False
        if closure_trace([good, lost], "pe_lost"):
            log("SELFTEST-FAIL %s: an export that lost an indirect parent package is accepted by PackageExportTrace" % prop); ok = False
    log("SELFTEST %s %s" % ("ok" if ok else "FAILED", prop))
    return 0 if ok else 2
